#!/usr/bin/env python3
"""addtag.py PKG FUNC PROP [PROP...] : add property tags to the `props` line of the contract of FUNC in
/repo/src/PKG/zz_contracts_verif.go (no-op for tags already there)."""
import sys, re
pkg, func, props = sys.argv[1], sys.argv[2], sys.argv[3:]
p = f'/repo/src/{pkg}/zz_contracts_verif.go'
lines = open(p).read().split('\n')
for i, l in enumerate(lines):
    if re.match(r'^//@ +func +' + re.escape(func) + r'\s*$', l):
        j = i + 1
        while not re.match(r'^//@ +props ', lines[j]):
            j += 1
            if re.match(r'^//@ +func ', lines[j]): sys.exit(f'{func}: no props line')
        have = lines[j].split()[2:]
        for q in props:
            if q not in have: have.append(q)
        lines[j] = '//@   props ' + ' '.join(have)
        open(p, 'w').write('\n'.join(lines)); break
else:
    sys.exit(f'{pkg}: no contract for {func}')
