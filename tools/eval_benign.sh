#!/bin/bash
# eval_benign.sh <dir-with-*.diff> : apply each behaviour-preserving edit to a scratch copy of /repo (removed afterwards) and
# see whether any obligation fails (= false alarm) or any function falls outside the subset (= silently undecided).
set -u
d=$1
export GOFLAGS=-mod=mod GOPROXY=off
for f in "$d"/*.diff; do
  tmp=$(mktemp -d /tmp/gvc-benign-XXXXXX)
  rsync -a --exclude .git /repo/ "$tmp"/
  if ! (cd "$tmp" && patch -p1 -s < "$f"); then echo "$(basename $d)/$(basename $f): PATCH-FAILS"; rm -rf "$tmp"; continue; fi
  if ! (cd "$tmp" && go build ./... >/dev/null 2>&1); then echo "$(basename $d)/$(basename $f): BUILD-FAILS"; rm -rf "$tmp"; continue; fi
  out=$(GVC_REPO="$tmp" /verif/bin/gvc all 2>&1)
  impr=$(echo "$out" | grep "^IMPRECISE" | awk '{print $2}' | sed 's/:$//' | sort -u | tr '\n' '|' | sed 's/|$//')
  fails=$(echo "$out" | grep "^FAIL" | awk '{print $2}' | sed 's/\.[0-9]*$//' | sort -u | { if [ -n "$impr" ]; then grep -vE "^($impr)/" ; else cat; fi; } | tr '\n' ' ')
  outside=$(echo "$out" | grep "^OUTSIDE" | cut -c1-160 | tr '\n' ';')
  c10=$(GVC_REPO="$tmp" GVC_EVIDENCE_DIR="$tmp/.ev" GVC_REPLAY_DIR="$tmp/.rp" /verif/bin/gvc check C10 2>&1 | grep -c "^VIOLATION")
  c11=$(GVC_REPO="$tmp" GVC_EVIDENCE_DIR="$tmp/.ev" GVC_REPLAY_DIR="$tmp/.rp" /verif/bin/gvc check C11 2>&1 | grep -c "^VIOLATION")
  echo "$(basename $d)/$(basename $f): $(echo "$out" | tail -1) | FAIL: [$fails] | OUTSIDE: [$outside] | IMPRECISE: [$impr] | C10 viol: $c10 C11 viol: $c11"
  rm -rf "$tmp"
done
