#!/bin/bash
# probe.sh <repo-dir> <program-dir> [analyzer args...]
# Builds cmd/gogreement from <repo-dir> and runs it on the Go module in <program-dir> (a directory with go.mod "module m").
# Prints the diagnostics and the exit status. Scratch output goes to a temp dir that is removed.
set -u
repo=$1; prog=$2; shift 2
tmp=$(mktemp -d /tmp/gvc-probe-XXXXXX)
trap 'rm -rf "$tmp"' EXIT
(cd "$repo" && GOFLAGS=-mod=mod GOPROXY=off go build -o "$tmp/gogreement" ./cmd/gogreement) || { echo "BUILD FAILED"; exit 3; }
cp -r "$prog" "$tmp/prog"
(cd "$tmp/prog" && GOFLAGS=-mod=mod GOPROXY=off "$tmp/gogreement" "$@" ./... 2>&1 | sed "s|$tmp/prog/||g")
echo "exit=${PIPESTATUS[0]}"
