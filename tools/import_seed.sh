#!/bin/bash
# import_seed.sh <PROP> [extra props to run...] : take a sub-agent's delivery from /tmp/seedout/<PROP>, store it as
# /verif/seeded/<PROP>-<n>/, confirm it (verify_seed.sh), run the registered check(s) against it on /repo and undo.
set -u
p=$1; shift
src=${SEED_SRC:-/tmp/seedout/$p}
n=1; while [ -e /verif/seeded/$p-$n ]; do n=$((n+1)); done
dst=/verif/seeded/$p-$n
mkdir -p $dst
cp $src/patch.diff $dst/; cp -r $src/demo $dst/; cp $src/README.md $dst/ 2>/dev/null
conf=$(/verif/tools/verify_seed.sh $dst 2>&1 | tail -4)
echo "$conf"
# the checks run against a scratch copy of /repo's working tree with the change applied (GVC_REPO), so nothing else that
# reads /repo at the same time is disturbed; equivalent to: git -C /repo apply <patch>; gvc check <ID>; git -C /repo checkout -- .
tmp=$(mktemp -d /tmp/gvc-seedimp-XXXXXX)
rsync -a --exclude .git /repo/ $tmp/
(cd $tmp && patch -p1 -s < $dst/patch.diff) || { echo "patch does not apply"; rm -rf $tmp; exit 2; }
caught=""
for q in $p "$@"; do
  out=$(GVC_REPO=$tmp GVC_EVIDENCE_DIR=$tmp/.ev GVC_REPLAY_DIR=$tmp/.rp /verif/bin/gvc check $q --tier quick 2>&1)
  v=$(echo "$out" | grep "^VIOLATION" | sed "s|replay=$tmp/.rp/||" | head -4)
  echo "== check $q: $(echo "$out" | grep '^property' )"; echo "$v"
  [ -n "$v" ] && caught="$caught $q:$(echo "$v" | head -1 | awk '{print $3}' | sed 's|.*/||; s|\.json||')"
done
rm -rf $tmp
python3 - "$dst" "$p" "$caught" "$conf" <<'EOF'
import json, sys
dst, p, caught, conf = sys.argv[1:5]
json.dump({"property": p, "origin": "independent sub-agent given only the property text and a scratch worktree",
  "confirmed": "SEED-CONFIRMED" in conf, "confirmation_log": conf.splitlines(),
  "check_run": f"git -C /repo apply {dst}/patch.diff; /verif/bin/gvc check <ID>; git -C /repo checkout -- .",
  "caught_by": caught.strip()}, open(dst + "/meta.json", "w"), indent=1)
EOF
echo "stored $dst caught_by:[$caught]"
