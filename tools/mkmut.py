#!/usr/bin/env python3
"""mkmut.py NAME FILE OLD NEW [FILE OLD NEW ...]
Writes /verif/selftest/mutants/NAME.patch (or refactors/ with --refactor): a unified diff against /repo in which, in
each FILE (relative to /repo), the unique occurrence of OLD is replaced by NEW. Does not touch /repo."""
import sys, difflib, os
args = sys.argv[1:]
kind = 'mutants'
if args and args[0] == '--refactor':
    kind = 'refactors'; args = args[1:]
name = args[0]; rest = args[1:]
out = []
files = {}
for i in range(0, len(rest), 3):
    f, old, new = rest[i], rest[i+1], rest[i+2]
    src = files.get(f)
    if src is None:
        src = open(os.path.join('/repo', f)).read()
    if src.count(old) != 1:
        sys.exit(f'{name}: {f}: OLD occurs {src.count(old)} times: {old!r}')
    files[f] = src.replace(old, new)
for f, new in files.items():
    a = open(os.path.join('/repo', f)).read().splitlines(keepends=True)
    b = new.splitlines(keepends=True)
    out += list(difflib.unified_diff(a, b, 'a/' + f, 'b/' + f))
p = f'/verif/selftest/{kind}/{name}.patch'
open(p, 'w').write(''.join(out))
print('wrote', p)
