#!/bin/bash
# run_seeds.sh [ID-prefix ...] : for every /verif/seeded/<ID>-<n>/patch.diff (optionally only those whose name starts with a
# given prefix) apply the change to a scratch copy of /repo (removed afterwards), run the property's quick check against it,
# and print whether it is caught.
set -u
export GOFLAGS=-mod=mod GOPROXY=off
for s in /verif/seeded/*/; do
  name=$(basename $s); prop=${name%%-*}
  if [ $# -gt 0 ]; then hit=0; for w in "$@"; do [[ $name == $w* ]] && hit=1; done; [ $hit = 1 ] || continue; fi
  tmp=$(mktemp -d /tmp/gvc-seed-XXXXXX)
  rsync -a --exclude .git /repo/ $tmp/
  if ! (cd $tmp && patch -p1 -s < $s/patch.diff); then echo "$name: PATCH-FAILS"; rm -rf $tmp; continue; fi
  out=$(GVC_REPO=$tmp GVC_EVIDENCE_DIR=$tmp/.ev GVC_REPLAY_DIR=$tmp/.rp /verif/bin/gvc check $prop --tier quick 2>&1); rc=$?
  if [ $rc -eq 1 ] && echo "$out" | grep -q "^VIOLATION property=$prop"; then
    echo "$name: caught ($(echo "$out" | grep -c '^VIOLATION') violation lines; first: $(echo "$out" | grep '^VIOLATION' | head -1 | sed "s|$tmp/.rp/||" | cut -c1-150))"
  else
    echo "$name: MISSED (exit $rc)"
  fi
  rm -rf $tmp
done
