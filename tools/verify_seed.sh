#!/bin/bash
# verify_seed.sh <seed-dir> : confirm a seeded change independently in scratch copies of /repo (removed afterwards):
#  (a) the existing test suite passes with the change, (b) the demonstration fails with it, (c) passes without it.
# The seed directory holds patch.diff and demo/ (either *_test.go files, with demo/PKG naming the package dir, or demo.sh <repo>).
set -u
seed=$1
export GOFLAGS=-mod=mod GOPROXY=off
base=$(mktemp -d /tmp/gvc-seedver-XXXXXX)
trap 'rm -rf "$base"' EXIT
mkdir -p $base/clean $base/changed
rsync -a --exclude .git /repo/ $base/clean/
rsync -a --exclude .git /repo/ $base/changed/
(cd $base/changed && patch -p1 -s < $seed/patch.diff) || { echo "PATCH-FAILS"; exit 2; }
(cd $base/changed && go build ./... ) || { echo "BUILD-FAILS"; exit 2; }
suite=$(cd $base/changed && go test -mod=mod -vet=off -count=1 ./... 2>&1 | grep -v "^ok\|no test files" | head -5)
[ -z "$suite" ] && echo "(a) suite passes with the change" || { echo "(a) SUITE FAILS: $suite"; }
run_demo() { # repo-dir
  local repo=$1
  if [ -f $seed/demo/demo.sh ]; then
    (cd $seed/demo && bash ./demo.sh $repo >/dev/null 2>&1); echo $?
  else
    local pkg=$(cat $seed/demo/PKG)
    cp $seed/demo/*_test.go $repo/$pkg/
    (cd $repo && go test -mod=mod -vet=off -count=1 ./$pkg/ >/dev/null 2>&1); local rc=$?
    for f in $seed/demo/*_test.go; do rm -f $repo/$pkg/$(basename $f); done
    echo $rc
  fi
}
rc_changed=$(run_demo $base/changed)
rc_clean=$(run_demo $base/clean)
echo "(b) demo on changed tree: exit $rc_changed (must be non-zero)"
echo "(c) demo on unchanged tree: exit $rc_clean (must be zero)"
[ -z "$suite" ] && [ "$rc_changed" != 0 ] && [ "$rc_clean" = 0 ] && echo "SEED-CONFIRMED" || echo "SEED-NOT-CONFIRMED"
