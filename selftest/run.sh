#!/bin/bash
# Must-fail / must-pass corpus for the gvc checks.
#   mutants/<PROP>__<name>.patch    : compiling changes to /repo that break property PROP -> the check must exit 1
#   refactors/<PROP>__<name>.patch  : harmless changes -> the check must exit 0 without VIOLATION
# Each patch is applied to a scratch copy of /repo (outside /repo and /verif) which is removed afterwards.
# usage: run.sh [PROP ...]     (default: every patch)
set -u
VERIF=${VERIF:-/verif}
REPO=${REPO:-/repo}
want=("$@")
fail=0
run_one() {
  local patch=$1 expect=$2
  local base=$(basename "$patch" .patch)
  local prop=${base%%__*}
  if [ ${#want[@]} -gt 0 ]; then
    local hit=0; for w in "${want[@]}"; do [ "$w" = "$prop" ] && hit=1; done
    [ $hit = 1 ] || return 0
  fi
  local tmp=$(mktemp -d /tmp/gvc-selftest-XXXXXX)
  rsync -a --exclude .git "$REPO"/ "$tmp"/
  if ! (cd "$tmp" && patch -p1 -s < "$patch"); then
    echo "SELFTEST-ERROR $base: patch does not apply"; fail=1; rm -rf "$tmp"; return
  fi
  if ! (cd "$tmp" && GOFLAGS=-mod=mod GOPROXY=off go build ./... >/dev/null 2>&1); then
    echo "SELFTEST-ERROR $base: patched tree does not build"; fail=1; rm -rf "$tmp"; return
  fi
  local out
  out=$(GVC_REPO="$tmp" GVC_EVIDENCE_DIR="$tmp/.evidence" GVC_REPLAY_DIR="$tmp/.replays" "$VERIF/bin/gvc" check "$prop" --tier quick 2>&1)
  local rc=$?
  if [ "$expect" = fail ]; then
    if [ $rc -eq 1 ] && echo "$out" | grep -q "^VIOLATION property=$prop"; then
      echo "ok   must-fail $base: $(echo "$out" | grep '^VIOLATION' | head -1 | sed "s|$tmp/.replays/||")"
    else
      echo "MISS must-fail $base: exit $rc"; echo "$out" | tail -5 | sed 's/^/     /'; fail=1
    fi
  else
    if [ $rc -eq 0 ] && ! echo "$out" | grep -q "^VIOLATION"; then
      echo "ok   must-pass $base"
    else
      echo "FALSE-ALARM must-pass $base: exit $rc"; echo "$out" | tail -5 | sed 's/^/     /'; fail=1
    fi
  fi
  rm -rf "$tmp"
}
export -f run_one
export VERIF REPO
WANT="${want[*]:-}"
export WANT
par=${SELFTEST_PAR:-4}
res=$(mktemp /tmp/gvc-selftest-res-XXXXXX)
{
  for p in "$VERIF"/selftest/mutants/*.patch; do [ -e "$p" ] && echo "$p fail"; done
  for p in "$VERIF"/selftest/refactors/*.patch; do [ -e "$p" ] && echo "$p pass"; done
} | xargs -P "$par" -L 1 bash -c 'want=($WANT); run_one "$0" "$1"' | tee "$res"
if grep -q "^MISS\|^FALSE-ALARM\|^SELFTEST-ERROR" "$res"; then fail=1; fi
rm -f "$res"
exit $fail
