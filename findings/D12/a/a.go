package a

// @constructor New
type T struct{ F int }

func New() *T { return &T{F: 1} }

var g = T{F: 2} // @ignore CTOR01

var h = T{F: 3}
