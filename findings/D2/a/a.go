package a

// @immutable
// @constructor New
type T struct{ F int }

func New() *T { return &T{F: 1} }

var Lit = T{F: 2}

var Late = func() int { var t T; t.F = 2; return t.F }()
