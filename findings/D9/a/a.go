package a

// @testonly
func Helper() int { return 1 }

// @testonly
type Mock struct{}

func Use() int {
	Helper := func() int { return 2 } // a local closure that merely shares the name
	return Helper()
}
