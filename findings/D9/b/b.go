package b

// @testonly
type Mock struct{}
