package c

import (
	"m/a"
	"m/b"
)

func Both() (a.Mock, b.Mock) { return a.Mock{}, b.Mock{} }
