package p

// @immutable
type T struct{ X int }

func F(t *T) {
//line generated.go:1000
	t.X = 1 // @ignore IMM01
}
