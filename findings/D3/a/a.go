package a

// @immutable
// @constructor New
type T struct{ F int }

func New() *T { return &T{F: 1} }
