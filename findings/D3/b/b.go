package b

import "m/a"

// New is not a constructor of a.T: it lives in another package
func New() *a.T {
	t := &a.T{F: 1}
	t.F = 2
	return t
}
