package a

// @immutable
type C int

func (c *C) Dec()   { (*c)-- }
func (c *C) Inc()   { *c++ }
func (c *C) Set()   { (*c) = 5 }
func (c *C) Reset() { *c = 0 }

// @immutable
type P struct{ N int }

func (p *P) Bump() { (p.N)++; (p).N = 3 }
