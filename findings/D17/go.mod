module m

go 1.25
