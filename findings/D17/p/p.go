package p

type I interface{ M() }

type S struct{}

// an alias denotes S, which has no method M: Go says A does not implement I -> IMPL03 expected
// @implements I
type A = S

// generic type: out of the property's domain, must at least not crash
// @implements I
type G[T any] struct{ x T }

func (G[T]) M() {}

// struct type literal alias
// @implements I
type B = struct{ I }

var _ I = B{}
