package a

// @constructor New
type T struct{ F int }

func New() *T { return &T{F: 1} }

func Use() int {
	// @ignore CTOR01
	x := T{F: 2}
	y := T{F: 3}
	return x.F + y.F
}
