package a

// @immutable
// @constructor New
// @testonly
type T struct{ F int }

func New() *T { return &T{F: 1} }

type A = T

func Use() int {
	var x A
	x.F = 1
	y := A{F: 2}
	z := new(A)
	z.F++
	return x.F + y.F + z.F
}
