package a

// @immutable
type T struct{ F int }

var Early = func() int { var t T; t.F = 2; return t.F }()
