package p

// (a) pointer depth: Go says Pa does NOT implement Ia (M has the wrong parameter type) -> IMPL03 expected
type Ia interface{ M(p **int) }

// @implements Ia
type Pa struct{}

func (Pa) M(p *int) {}

// (b) alias in a signature: identical types -> no diagnostic expected
type A = int
type Ib interface{ M(a A) }

// @implements Ib
type Pb struct{}

func (Pb) M(a int) {}

// (c) method promoted through an embedded pointer is in the value method set -> no diagnostic expected
type E struct{}

func (*E) M() {}

type Ic interface{ M() }

// @implements Ic
type Pc struct{ *E }

// (e) byte and uint8 are identical -> no diagnostic expected
type Ie interface{ M(b byte, r rune) }

// @implements Ie
type Pe struct{}

func (Pe) M(b uint8, r int32) {}

// (d) alias nested in a composite type: identical -> no diagnostic expected
type Id interface{ M(a []A, m map[string]*A) }

// @implements Id
type Pd struct{}

func (Pd) M(a []int, m map[string]*int) {}

// compile-time truth
var (
	_ Ib = Pb{}
	_ Ic = Pc{}
	_ Ie = Pe{}
	_ Id = Pd{}
)
