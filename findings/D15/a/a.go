package a

type I interface {
	Pub()
	priv()
}
