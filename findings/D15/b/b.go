package b

import "m/a"

var _ = a.I(nil)

// Go: T does not implement a.I (a.priv is not b.priv) -> IMPL03 expected
// @implements a.I
type T struct{}

func (T) Pub()  {}
func (T) priv() {}
