package app

import "m/lib/shapes" // binds the name geom, NOT shapes

// Go resolves geom.Shape; the identifier `shapes` is not bound in this file, so the qualifier of the annotation below
// does not denote any package: the property (C05) demands IMPL01.
// @implements shapes.Shape
type Square struct{ S float64 }

func (s Square) Area() float64 { return s.S * s.S }

var _ geom.Shape = Square{}
