// Package geom lives in a directory whose name differs from the package name.
package geom

type Shape interface {
	Area() float64
}
