package b

import "m/c"

// @implements notc.I
type X struct{}

func (X) M() {}

var _ notc.I = X{}

type Y interface{ N() }

// @implements b.Y
type Z struct{}

func (Z) N() {}
