package notc

type I interface{ M() }
