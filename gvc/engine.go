package main

import (
	"strconv"
	"fmt"
	"go/ast"
	"go/token"
	"go/types"
	"os"
	"path/filepath"
	"sort"
	"strings"

	"golang.org/x/tools/go/packages"
)

const repoPrefix = "github.com/a14e/gogreement"

type FuncInfo struct {
	Key  string
	Decl *ast.FuncDecl
	Pkg  *packages.Package
	Obj  *types.Func
}

type Engine struct {
	fset      *token.FileSet
	pkgs      map[string]*packages.Package
	funcs     map[string]*FuncInfo
	contracts map[string]*Contract
	specFuncs map[string]*SpecFunc
	axioms    []*AxiomSpec
	nullable  map[string]bool // nullable external fields
	ghostFields map[string]string
	evalWanted map[string][]string // package path -> variable names
	evalValues map[string]interface{} // "pkgpath.name" -> decoded JSON
	evalDone   map[string]bool
	libFiles  []string
	notes     map[string]bool
	repoDir   string
	srcCache  map[string][]byte
	canon     map[string]string
	reLits    map[string]string
	loopLock  map[string]map[int]string // function key -> loop ordinal -> signature, recorded on the unchanged tree
	callLock  map[string]map[string]int // function key -> callee name -> number of call sites, recorded on the unchanged tree
	localLock map[string]map[string][]int // function key -> local name -> positions among the function's locals
}

func (e *Engine) note(format string, args ...interface{}) {
	e.notes[fmt.Sprintf(format, args...)] = true
}

func loadEngine(repoDir string, libDir string) (*Engine, error) {
	cfg := &packages.Config{
		Mode:       packages.LoadAllSyntax,
		Dir:        repoDir,
		BuildFlags: []string{"-tags=verif"},
		Env:        append(os.Environ(), "GOFLAGS=-mod=mod", "GOPROXY=off"),
	}
	pkgs, err := packages.Load(cfg, "./src/...", "./cmd/...")
	if err != nil {
		return nil, err
	}
	e := &Engine{
		loopLock: loadLoopLock(filepath.Join(libDir, "..", "loops.lock")),
		callLock: loadCallLock(filepath.Join(libDir, "..", "loops.lock")),
		localLock: loadLocalLock(filepath.Join(libDir, "..", "loops.lock")),
		pkgs: map[string]*packages.Package{}, funcs: map[string]*FuncInfo{}, contracts: map[string]*Contract{},
		specFuncs: map[string]*SpecFunc{}, nullable: map[string]bool{}, ghostFields: map[string]string{}, evalWanted: map[string][]string{}, evalValues: map[string]interface{}{}, evalDone: map[string]bool{}, notes: map[string]bool{}, repoDir: repoDir,
	}
	var errs []string
	packages.Visit(pkgs, nil, func(p *packages.Package) {
		e.pkgs[p.PkgPath] = p
		if strings.HasPrefix(p.PkgPath, repoPrefix) {
			for _, er := range p.Errors {
				errs = append(errs, er.Error())
			}
		}
		if e.fset == nil && p.Fset != nil {
			e.fset = p.Fset
		}
	})
	if len(errs) > 0 {
		return nil, fmt.Errorf("package errors: %s", strings.Join(errs, "; "))
	}
	// index repo functions and read contract comments
	for path, p := range e.pkgs {
		if !strings.HasPrefix(path, repoPrefix) {
			continue
		}
		for _, f := range p.Syntax {
			fname := e.fset.Position(f.Pos()).Filename
			if strings.HasSuffix(fname, "_test.go") {
				continue
			}
			for _, d := range f.Decls {
				fd, ok := d.(*ast.FuncDecl)
				if !ok {
					continue
				}
				obj, _ := p.TypesInfo.Defs[fd.Name].(*types.Func)
				if obj == nil {
					continue
				}
				key := funcKey(obj)
				e.funcs[key] = &FuncInfo{Key: key, Decl: fd, Pkg: p, Obj: obj}
			}
			if strings.HasSuffix(fname, "_verif.go") {
				var lines, poss []string
				for _, cg := range f.Comments {
					for _, c := range cg.List {
						if strings.HasPrefix(c.Text, "//@") {
							lines = append(lines, c.Text[3:])
							pos := e.fset.Position(c.Pos())
							poss = append(poss, fmt.Sprintf("%s:%d", relPath(repoDir, pos.Filename), pos.Line))
						}
					}
				}
				sf, err := parseSpecLines(path, lines, poss)
				if err != nil {
					return nil, err
				}
				if err := e.addSpecFile(sf); err != nil {
					return nil, err
				}
			}
		}
	}
	// library specs
	libs, _ := filepath.Glob(filepath.Join(libDir, "*.spec"))
	sort.Strings(libs)
	for _, lf := range libs {
		data, err := os.ReadFile(lf)
		if err != nil {
			return nil, err
		}
		var lines, poss []string
		for i, l := range strings.Split(string(data), "\n") {
			lines = append(lines, l)
			poss = append(poss, fmt.Sprintf("%s:%d", filepath.Base(lf), i+1))
		}
		sf, err := parseSpecLines("", lines, poss)
		if err != nil {
			return nil, err
		}
		for _, c := range sf.Contracts {
			c.Trusted = true
		}
		if err := e.addSpecFile(sf); err != nil {
			return nil, err
		}
		e.libFiles = append(e.libFiles, filepath.Base(lf))
	}
	return e, nil
}

func relPath(base, p string) string {
	if r, err := filepath.Rel(base, p); err == nil {
		return r
	}
	return p
}

func (e *Engine) addSpecFile(sf *SpecFile) error {
	for _, c := range sf.Contracts {
		if _, dup := e.contracts[c.Key]; dup {
			return fmt.Errorf("%s: duplicate contract for %s", c.Pos, c.Key)
		}
		e.contracts[c.Key] = c
	}
	for _, f := range sf.Funcs {
		if _, dup := e.specFuncs[f.Name]; dup {
			return fmt.Errorf("%s: duplicate spec function %s", f.Pos, f.Name)
		}
		e.specFuncs[f.Name] = f
	}
	e.axioms = append(e.axioms, sf.Axioms...)
	for k := range sf.Nullable {
		e.nullable[k] = true
	}
	for k, v := range sf.GhostFields {
		e.ghostFields[k] = v
	}
	e.evalWanted[sf.Pkg] = append(e.evalWanted[sf.Pkg], sf.Evaluated...)
	return nil
}

// funcKey: "pkgpath.Name" or "pkgpath.Recv.Name".
func funcKey(f *types.Func) string {
	f = f.Origin()
	sig := f.Type().(*types.Signature)
	pkg := ""
	if f.Pkg() != nil {
		pkg = f.Pkg().Path()
	}
	if recv := sig.Recv(); recv != nil {
		t := recv.Type()
		if p, ok := t.(*types.Pointer); ok {
			t = p.Elem()
		}
		t = types.Unalias(t)
		if n, ok := t.(*types.Named); ok {
			if n.Obj().Pkg() != nil {
				pkg = n.Obj().Pkg().Path()
			}
			return pkg + "." + n.Obj().Name() + "." + f.Name()
		}
		return pkg + ".?." + f.Name()
	}
	return pkg + "." + f.Name()
}

func isRepoPkg(p *types.Package) bool {
	return p != nil && strings.HasPrefix(p.Path(), repoPrefix)
}

// ---------------------------------------------------------------------------
// Sorts

// TypeSys maps Go types to SMT sorts within one SMT context.
type TypeSys struct {
	smt     *SMT
	structs []structEntry
	elemOf  map[string]string // slice sort -> element sort
	pairOf  map[string][2]string
}

type structEntry struct {
	st   *types.Struct
	name string // sort name
	base string // canonical Go name for heaps
}

func isExtStruct(t types.Type) bool {
	n, ok := types.Unalias(t).(*types.Named)
	if !ok {
		return false
	}
	if _, ok := n.Underlying().(*types.Struct); !ok {
		return false
	}
	return !isRepoPkg(n.Obj().Pkg())
}

func shortPkg(p *types.Package) string {
	if p == nil {
		return ""
	}
	path := p.Path()
	if strings.HasPrefix(path, repoPrefix) {
		path = strings.TrimPrefix(path, repoPrefix)
		path = strings.TrimPrefix(path, "/src/")
		path = strings.TrimPrefix(path, "/")
	}
	return sanitize(path)
}

func (ts *TypeSys) sortOf(t types.Type) string {
	t = types.Unalias(t)
	switch u := t.(type) {
	case *types.Basic:
		switch {
		case u.Info()&types.IsBoolean != 0:
			return SBool
		case u.Info()&types.IsString != 0:
			return SStr
		case u.Info()&types.IsInteger != 0:
			return SInt
		case u.Kind() == types.UntypedNil:
			return SInt
		case u.Kind() == types.UnsafePointer:
			return SInt
		case u.Info()&types.IsFloat != 0:
			return "Real"
		}
		return SInt
	case *types.Pointer, *types.Map, *types.Interface, *types.Chan, *types.Signature, *types.TypeParam:
		return SInt
	case *types.Slice:
		return ts.sliceSort(ts.sortOf(u.Elem()))
	case *types.Array:
		return ts.sliceSort(ts.sortOf(u.Elem()))
	case *types.Struct:
		return ts.structSort(u, "anon")
	case *types.Tuple:
		return SInt
	case *types.Named:
		if u == typeTagType {
			return "TypeTag"
		}
		if isIterSeq(u) {
			return ts.iterSort(u)
		}
		switch uu := u.Underlying().(type) {
		case *types.Struct:
			if !isRepoPkg(u.Obj().Pkg()) {
				return SInt // external struct values are opaque
			}
			return ts.structSort(uu, shortPkg(u.Obj().Pkg())+"_"+u.Obj().Name())
		default:
			return ts.sortOf(u.Underlying())
		}
	}
	return SInt
}

func isIterSeq(n *types.Named) bool {
	o := n.Origin().Obj()
	return o.Pkg() != nil && o.Pkg().Path() == "iter" && (o.Name() == "Seq" || o.Name() == "Seq2")
}

func (ts *TypeSys) iterSort(n *types.Named) string {
	args := n.TypeArgs()
	if n.Origin().Obj().Name() == "Seq" {
		return ts.sliceSort(ts.sortOf(args.At(0)))
	}
	return ts.sliceSort(ts.pairSort(ts.sortOf(args.At(0)), ts.sortOf(args.At(1))))
}

func mangleSort(s string) string {
	r := strings.NewReplacer("(", "", ")", "", " ", "_")
	return r.Replace(s)
}

func (ts *TypeSys) pairSort(a, b string) string {
	name := "Pair_" + mangleSort(a) + "_" + mangleSort(b)
	ts.pairOf[name] = [2]string{a, b}
	ts.smt.declare(name, fmt.Sprintf("(declare-datatypes ((%s 0)) (((mk_%s (fst_%s %s) (snd_%s %s)))))", name, name, name, a, name, b))
	return name
}

func (ts *TypeSys) sliceSort(elem string) string {
	name := "Slice_" + mangleSort(elem)
	ts.elemOf[name] = elem
	if !ts.smt.declared[name] {
		ts.smt.declare(name, fmt.Sprintf("(declare-datatypes ((%s 0)) (((mk_%s (rawlen_%s Int) (arr_%s (Array Int %s)) (rawnil_%s Bool)))))", name, name, name, name, elem, name))
		ts.smt.declare("len_"+name, fmt.Sprintf("(define-fun len_%s ((s %s)) Int (ite (< (rawlen_%s s) 0) 0 (rawlen_%s s)))", name, name, name, name))
		ts.smt.declare("isnil_"+name, fmt.Sprintf("(define-fun isnil_%s ((s %s)) Bool (and (rawnil_%s s) (<= (rawlen_%s s) 0)))", name, name, name, name))
	}
	return name
}

func (ts *TypeSys) elemSort(sliceSort string) string {
	e, ok := ts.elemOf[sliceSort]
	if !ok {
		panic("not a slice sort: " + sliceSort)
	}
	return e
}

func (ts *TypeSys) isSliceSort(s string) bool { _, ok := ts.elemOf[s]; return ok }

func (ts *TypeSys) structSort(st *types.Struct, hint string) string {
	for _, se := range ts.structs {
		if types.Identical(se.st, st) {
			return se.name
		}
	}
	name := "T_" + sanitize(hint)
	// make unique
	for i := 2; ts.smt.declared[name]; i++ {
		name = fmt.Sprintf("T_%s%d", sanitize(hint), i)
	}
	// reserve the entry first to stop infinite recursion on (illegal) recursive value structs
	ts.structs = append(ts.structs, structEntry{st, name, hint})
	var fields []string
	for i := 0; i < st.NumFields(); i++ {
		f := st.Field(i)
		fields = append(fields, fmt.Sprintf("(%s_%s %s)", name, f.Name(), ts.sortOf(f.Type())))
	}
	if len(fields) == 0 {
		ts.smt.declare(name, fmt.Sprintf("(declare-datatypes ((%s 0)) (((mk_%s))))", name, name))
	} else {
		ts.smt.declare(name, fmt.Sprintf("(declare-datatypes ((%s 0)) (((mk_%s %s))))", name, name, strings.Join(fields, " ")))
	}
	return name
}

// structOf returns the struct type behind t (value or named), nil otherwise.
func structOf(t types.Type) *types.Struct {
	if t == nil {
		return nil
	}
	s, _ := types.Unalias(t).Underlying().(*types.Struct)
	return s
}

// isRepoStruct: a struct type declared in the repository (fields live in per-field heaps / datatypes).
func isRepoStruct(t types.Type) bool {
	t = types.Unalias(t)
	switch u := t.(type) {
	case *types.Named:
		if _, ok := u.Underlying().(*types.Struct); ok {
			return isRepoPkg(u.Obj().Pkg())
		}
	case *types.Struct:
		return true
	}
	return false
}


// loadLoopLock reads contracts/loops.lock: "<function key>\t<ordinal>\t<signature>" per line.
func loadLoopLock(path string) map[string]map[int]string {
	out := map[string]map[int]string{}
	data, err := os.ReadFile(path)
	if err != nil {
		return out
	}
	for _, l := range strings.Split(string(data), "\n") {
		if l == "" || strings.HasPrefix(l, "#") {
			continue
		}
		f := strings.SplitN(l, "\t", 3)
		if len(f) != 3 {
			continue
		}
		n, err := strconv.Atoi(f[1])
		if err != nil {
			continue
		}
		if out[f[0]] == nil {
			out[f[0]] = map[int]string{}
		}
		out[f[0]][n] = f[2]
	}
	return out
}


// loadCallLock reads the "call" lines of contracts/loops.lock: "call\t<function key>\t<callee name>\t<count>".
func loadCallLock(path string) map[string]map[string]int {
	out := map[string]map[string]int{}
	data, err := os.ReadFile(path)
	if err != nil {
		return out
	}
	for _, l := range strings.Split(string(data), "\n") {
		f := strings.Split(l, "\t")
		if len(f) != 4 || f[0] != "call" {
			continue
		}
		n, err := strconv.Atoi(f[3])
		if err != nil {
			continue
		}
		if out[f[1]] == nil {
			out[f[1]] = map[string]int{}
		}
		out[f[1]][f[2]] = n
	}
	return out
}

// loadLocalLock reads the "local" lines of contracts/loops.lock: "local\t<function key>\t<name>\t<position>".
func loadLocalLock(path string) map[string]map[string][]int {
	out := map[string]map[string][]int{}
	data, err := os.ReadFile(path)
	if err != nil {
		return out
	}
	for _, l := range strings.Split(string(data), "\n") {
		f := strings.Split(l, "\t")
		if len(f) != 4 || f[0] != "local" {
			continue
		}
		n, err := strconv.Atoi(f[3])
		if err != nil {
			continue
		}
		if out[f[1]] == nil {
			out[f[1]] = map[string][]int{}
		}
		out[f[1]][f[2]] = append(out[f[1]][f[2]], n)
	}
	return out
}
