package main

import (
	"fmt"
	"go/ast"
	"go/token"
	"go/types"
	"strings"
)

type specCtx struct {
	st   *State
	env  map[string]*Term
	old  *State
	site token.Pos
	noLocals bool // inside a macro body: only its parameters, package-level names and packages are in scope
}

func (c *FnCtx) specEval(st *State, e *SExpr, env map[string]*Term, old *State) *Term {
	return c.specEvalAt(st, e, env, old, nil)
}

func (c *FnCtx) specEvalAt(st *State, e *SExpr, env map[string]*Term, old *State, site ast.Node) (res *Term) {
	sc := &specCtx{st: st, env: env, old: old}
	if site != nil {
		sc.site = site.Pos()
	}
	// spec evaluation must not change the state: run on a scratch copy whose pc additions are discarded,
	// except that definitional facts (fresh names) are kept in the SMT context.
	c.specDepth++
	st.noAssume++
	if old != nil && old != st {
		old.noAssume++
	}
	saveObls := len(c.obls)
	defer func() {
		c.specDepth--
		st.noAssume--
		if old != nil && old != st {
			old.noAssume--
		}
		c.obls = c.obls[:saveObls]
		if r := recover(); r != nil {
			if _, ok := r.(retMissing); ok {
				res = tFalse
				return
			}
			panic(r)
		}
	}()
	return c.sev(sc, e)
}

// retMissing: a clause names the result of a call site that was not executed on the path at hand
type retMissing struct{ name string }

func (c *FnCtx) specErr(e *SExpr, format string, args ...interface{}) {
	panic(unsupported{fmt.Sprintf("%s: spec: %s (in %s)", e.Pos, fmt.Sprintf(format, args...), e)})
}

func (c *FnCtx) lookupLocal(sc *specCtx, name string) *Term {
	if sc.noLocals {
		return nil
	}
	var best types.Object
	for obj := range sc.st.vars {
		if obj.Name() != name {
			continue
		}
		if sc.site != token.NoPos && obj.Parent() != nil && !obj.Parent().Contains(sc.site) {
			// parameters and results live in the function scope which contains the body
			if obj.Parent() != nil && obj.Parent().Pos() != token.NoPos {
				continue
			}
		}
		if best == nil || obj.Pos() > best.Pos() {
			best = obj
		}
	}
	if best == nil {
		return nil
	}
	v := best.(*types.Var)
	return c.readVar(sc.st, v, nil)
}

func (c *FnCtx) sev(sc *specCtx, e *SExpr) *Term {
	switch e.Kind {
	case "int":
		return intLit(e.Int)
	case "char":
		return intLit(e.Int)
	case "str":
		return c.smt.strLit(e.Str)
	case "bool":
		if e.Name == "true" {
			return tTrue
		}
		return tFalse
	case "nil":
		return intLit(0)
	case "ident":
		if t, ok := sc.env[e.Name]; ok {
			return t
		}
		if strings.HasPrefix(e.Name, "$") {
			if t, ok := sc.st.ghost[e.Name]; ok {
				return t
			}
		}
		if e.Name == "$v" {
			// the variable declared by the init statement of the for loop whose clause this is (rename-proof)
			if v := c.loopInitVar[sc.site]; v != nil {
				return c.readVar(sc.st, v, nil)
			}
			c.specErr(e, "$v: the loop has no init statement that declares one variable")
		}
		for _, l := range c.letDefs {
			if l.Name == e.Name {
				return c.sev(sc, l.Expr)
			}
		}
		if t, ok := c.loopGhost[e.Name]; ok {
			return t
		}
		if c.contract != nil {
			for _, g := range c.contract.Ghosts {
				if g.Name == e.Name {
					if t, ok := c.env[e.Name]; ok {
						return t
					}
				}
			}
		}
		if t := c.lookupLocal(sc, e.Name); t != nil {
			return t
		}
		// package-level object of the current package
		if c.pkg != nil {
			if obj := c.pkg.Scope().Lookup(e.Name); obj != nil {
				switch o := obj.(type) {
				case *types.Const:
					return c.constTerm(o.Val(), o.Type())
				case *types.Var:
					return c.globalRead(sc.st, o)
				}
			}
		}
		if f, ok := c.eng.specFuncs[e.Name]; ok && len(f.Params) == 0 {
			return c.applySpecFunc(sc, f, nil, e)
		}
		// a local named in a loop invariant was renamed: invariants are proof hints, so re-binding the name to the
		// variable declared at the same place (the n-th local of the function, recorded in contracts/loops.lock) is
		// always sound - if the guess is wrong the proof fails, it cannot pass wrongly
		// (a renamed receiver, parameter or named result is re-bound in every clause: contracts bind them by position)
		if len(c.inlineStack) == 0 {
			// (a name declared several times in the function: the declaration that is in scope where the clause stands)
			for _, ord := range c.eng.localLock[c.fi.Key][e.Name] {
				if !(c.hintMode > 0 || (ord >= 0 && ord < c.signatureVars())) {
					continue
				}
				v := c.localByOrdinal(ord)
				if v == nil {
					continue
				}
				if _, live := sc.st.vars[v]; !live {
					continue
				}
				if sc.site != token.NoPos && v.Parent() != nil && v.Parent().Pos() != token.NoPos && !v.Parent().Contains(sc.site) {
					continue
				}
				c.assumptionsUsed["renamed local re-bound in a loop invariant by declaration position: "+e.Name+" -> "+v.Name()] = true
				return c.readVar(sc.st, v, nil)
			}
		}
		c.specErr(e, "unknown identifier %s", e.Name)
	case "old":
		if sc.old == nil {
			return c.sev(sc, e.Args[0])
		}
		sc2 := &specCtx{st: sc.old, env: sc.env, old: sc.old, site: sc.site}
		return c.sev(sc2, e.Args[0])
	case "unary":
		switch e.Name {
		case "!":
			return mkNot(c.sevBool(sc, e.Args[0]))
		case "-":
			return mk("-", SInt, c.sev(sc, e.Args[0]))
		case "&":
			// address of a local variable whose address is taken in the code
			if e.Args[0].Kind == "ident" {
				var best types.Object
				for obj := range sc.st.vars {
					if obj.Name() == e.Args[0].Name && c.boxed[obj] {
						if best == nil || obj.Pos() > best.Pos() {
							best = obj
						}
					}
				}
				if best != nil {
					return sc.st.vars[best].withGo(types.NewPointer(best.Type()))
				}
			}
			c.specErr(e, "& is only supported on local variables whose address is taken in the code")
		case "*":
			p := c.sev(sc, e.Args[0])
			if p.GoT == nil || !isPointer(p.GoT) {
				c.specErr(e, "dereference of non-pointer")
			}
			return c.loadCell(sc.st, p, deref(p.GoT))
		}
	case "binary":
		return c.sevBinary(sc, e)
	case "cond":
		return mkIte(c.sevBool(sc, e.Args[0]), c.sev(sc, e.Args[1]), c.sev(sc, e.Args[2]))
	case "quant":
		env2 := map[string]*Term{}
		for k, v := range sc.env {
			env2[k] = v
		}
		var bs []Bound
		var guards []*Term
		for _, b := range e.Binds {
			t := c.resolveType(b.Type, e)
			srt := c.ts.sortOf(t)
			name := fmt.Sprintf("%s!d%d", sanitize(b.Name), c.qdepth)
			bs = append(bs, Bound{name, srt})
			env2[b.Name] = leaf(name, srt).withGo(t)
			// An axiom about all values of a concrete pointer type T must not speak about values of other types: references
			// are untyped integers here and the methods of T that implement an interface are the interface's functions
			// (types.Func.Type is types.Object.Type), so without this guard "forall f *types.Func :: f.Type() is a
			// signature" would claim it of every types.Object.
			if c.inAxiom && e.Name == "forall" && srt == SInt {
				if pt, ok := types.Unalias(t).Underlying().(*types.Pointer); ok {
					if _, isNamed := types.Unalias(pt.Elem()).(*types.Named); isNamed {
						v := leaf(name, srt)
						guards = append(guards, mkOr(mkEq(v, intLit(0)), mkEq(mk("dyntype", "TypeTag", v), c.typeTag(t))))
					}
				}
			}
		}
		sc2 := &specCtx{st: sc.st, env: env2, old: sc.old, site: sc.site}
		c.qdepth++
		body := c.sevBool(sc2, e.Args[0])
		c.qdepth--
		pats := c.inferPatterns(bs, body)
		if len(e.Trigs) > 0 {
			pats = nil
			c.qdepth++
			for _, g := range e.Trigs {
				var group []*Term
				for _, t := range g {
					group = append(group, c.sev(sc2, t))
				}
				pats = append(pats, group)
			}
			c.qdepth--
		}
		if e.Name == "forall" {
			if len(guards) > 0 {
				body = mkImplies(mkAnd(guards...), body)
			}
			return mkForall(bs, body, pats...)
		}
		return mkExists(bs, body, pats...)
	case "sel":
		// package-qualified name?
		if e.Args[0].Kind == "ident" {
			if _, isVar := sc.env[e.Args[0].Name]; !isVar && c.lookupLocal(sc, e.Args[0].Name) == nil {
				if p := c.findPackage(e.Args[0].Name); p != nil {
					obj := p.Scope().Lookup(e.Name)
					switch o := obj.(type) {
					case *types.Const:
						return c.constTerm(o.Val(), o.Type())
					case *types.Var:
						return c.globalRead(sc.st, o)
					}
					c.specErr(e, "unknown package member %s.%s", e.Args[0].Name, e.Name)
				}
			}
		}
		x := c.sev(sc, e.Args[0])
		return c.sevField(sc, x, e.Name, e)
	case "index":
		x := c.sev(sc, e.Args[0])
		i := c.sev(sc, e.Args[1])
		switch {
		case x.Sort == SStr:
			return mk("sbyte", SInt, x, i)
		case c.ts.isSliceSort(x.Sort):
			r := c.sliceAt(x, i)
			if strings.HasPrefix(r.Sort, "Pair_") {
				return r.withGo(x.GoT) // the pair remembers the iter.Seq2 type it came from
			}
			if x.GoT != nil {
				r = r.withGo(elemType(x.GoT))
			}
			return r
		case x.GoT != nil:
			if mt, ok := types.Unalias(x.GoT).Underlying().(*types.Map); ok {
				v, _ := c.mapLookup(sc.st, x, mt, i)
				return v
			}
		}
		if strings.HasPrefix(x.Sort, "(Array ") {
			return mkSelect(x, i)
		}
		c.specErr(e, "index on %s", x.Sort)
	case "slice":
		x := c.sev(sc, e.Args[0])
		var lo, hi *Term = intLit(0), nil
		if e.Args[1] != nil {
			lo = c.sev(sc, e.Args[1])
		}
		if x.Sort == SStr {
			hi = mk("slen", SInt, x)
			if e.Args[2] != nil {
				hi = c.sev(sc, e.Args[2])
			}
			return mk("sslice", SStr, x, lo, hi)
		}
		if c.ts.isSliceSort(x.Sort) {
			hi = c.sliceLen(x)
			if e.Args[2] != nil {
				hi = c.sev(sc, e.Args[2])
			}
			if !isLit(lo, "0") {
				c.specErr(e, "only prefixes s[:k] of slices are supported")
			}
			return c.mkSlice(x.Sort, hi, c.sliceArr(x)).withGo(x.GoT)
		}
		c.specErr(e, "slice of %s", x.Sort)
	case "typeis":
		x := c.sev(sc, e.Args[0])
		t := c.resolveType(e.Str, e)
		_, ok := c.typeAssert(sc.st, x, t, nil)
		return ok
	case "call":
		return c.sevCall(sc, e)
	}
	c.specErr(e, "unsupported spec expression kind %s", e.Kind)
	return nil
}

func elemType(t types.Type) types.Type {
	switch u := types.Unalias(t).Underlying().(type) {
	case *types.Slice:
		return u.Elem()
	case *types.Array:
		return u.Elem()
	case *types.Signature:
		if n, ok := types.Unalias(t).(*types.Named); ok && isIterSeq(n) {
			return n.TypeArgs().At(0)
		}
	}
	return nil
}

func (c *FnCtx) sevBool(sc *specCtx, e *SExpr) *Term {
	t := c.sev(sc, e)
	if t.Sort != SBool {
		c.specErr(e, "expected Bool, got %s", t.Sort)
	}
	return t
}

func (c *FnCtx) sevBinary(sc *specCtx, e *SExpr) *Term {
	switch e.Name {
	case "&&":
		a := c.sevBool(sc, e.Args[0])
		if isLit(a, "false") {
			return tFalse // short circuit (the right operand may name a $ret that does not exist on this path)
		}
		return mkAnd(a, c.sevBool(sc, e.Args[1]))
	case "||":
		return mkOr(c.sevBool(sc, e.Args[0]), c.sevBool(sc, e.Args[1]))
	case "==>":
		a := c.sevBool(sc, e.Args[0])
		// a consequent that names the result of a call site not executed on this path ($ret) counts as false: the
		// implication then holds exactly where its antecedent (typically with $called(...)) is false
		b := func() (b *Term) {
			defer func() {
				if r := recover(); r != nil {
					if _, ok := r.(retMissing); ok {
						b = tFalse
						return
					}
					panic(r)
				}
			}()
			return c.sevBool(sc, e.Args[1])
		}()
		return mkImplies(a, b)
	case "<==>":
		return mkEq(c.sevBool(sc, e.Args[0]), c.sevBool(sc, e.Args[1]))
	}
	a := c.sev(sc, e.Args[0])
	b := c.sev(sc, e.Args[1])
	switch e.Name {
	case "==", "!=":
		var r *Term
		if c.ts.isSliceSort(a.Sort) && e.Args[1].Kind == "nil" {
			r = c.sliceNil(a)
		} else if c.ts.isSliceSort(b.Sort) && e.Args[0].Kind == "nil" {
			r = c.sliceNil(b)
		} else if c.ts.isSliceSort(a.Sort) && a.Sort == b.Sort {
			r = c.seqEq(a, b)
		} else {
			if a.Sort != b.Sort {
				// nil against a struct etc.
				c.specErr(e, "comparison of %s and %s", a.Sort, b.Sort)
			}
			r = mkEq(a, b)
		}
		if e.Name == "!=" {
			return mkNot(r)
		}
		return r
	case "<", "<=", ">", ">=":
		if a.Sort != SInt || b.Sort != SInt {
			c.specErr(e, "ordered comparison on %s/%s", a.Sort, b.Sort)
		}
		return mk(e.Name, SBool, a, b)
	case "+":
		if a.Sort == SStr {
			return mk("sconcat", SStr, a, b)
		}
		return mkAdd(a, b)
	case "-":
		return mkSub(a, b)
	case "*":
		return mk("*", SInt, a, b)
	case "/":
		return c.goDiv(a, b)
	case "%":
		return mkSub(a, mk("*", SInt, b, c.goDiv(a, b)))
	}
	c.specErr(e, "operator %s", e.Name)
	return nil
}

// seqEq: extensional equality of two sequences.
func (c *FnCtx) seqEq(a, b *Term) *Term {
	if a.String() == b.String() {
		return tTrue
	}
	i := leaf(fmt.Sprintf("se!d%d", c.qdepth), SInt)
	return mkAnd(mkEq(c.sliceLen(a), c.sliceLen(b)),
		mkForall([]Bound{{i.Op, SInt}}, mkImplies(mkAnd(mkLe(intLit(0), i), mkLt(i, c.sliceLen(a))), mkEq(c.sliceAt(a, i), c.sliceAt(b, i))), []*Term{c.sliceAt(a, i)}, []*Term{c.sliceAt(b, i)}))
}

func (c *FnCtx) sevField(sc *specCtx, x *Term, name string, e *SExpr) *Term {
	if strings.HasPrefix(x.Sort, "Pair_") {
		ab := c.ts.pairOf[x.Sort]
		var ta, tb types.Type
		if n, ok := types.Unalias(x.GoT).(*types.Named); x.GoT != nil && ok && isIterSeq(n) && n.TypeArgs().Len() == 2 {
			ta, tb = n.TypeArgs().At(0), n.TypeArgs().At(1)
		}
		if name == "fst" {
			return mk("fst_"+x.Sort, ab[0], x).withGo(ta)
		}
		return mk("snd_"+x.Sort, ab[1], x).withGo(tb)
	}
	if x.GoT == nil {
		c.specErr(e, "field %s of a value without Go type", name)
	}
	t := x.GoT
	if strings.HasPrefix(name, "$") {
		hn, srt, gt := c.ghostField(t, name, e)
		return c.heapRead(sc.st, hn, srt, x).withGo(gt)
	}
	// pairs
	if strings.HasPrefix(x.Sort, "Pair_") {
		ab := c.ts.pairOf[x.Sort]
		if name == "fst" {
			return mk("fst_"+x.Sort, ab[0], x)
		}
		return mk("snd_"+x.Sort, ab[1], x)
	}
	obj, index, _ := types.LookupFieldOrMethod(t, true, c.pkg, name)
	if obj == nil {
		// unexported field of another package: look it up in the declaring package
		if n := ownerNamed(t); n != nil {
			obj, index, _ = types.LookupFieldOrMethod(t, true, n.Obj().Pkg(), name)
		}
	}
	f, ok := obj.(*types.Var)
	if !ok {
		c.specErr(e, "no field %s in %s", name, t)
	}
	// spec-level field reads carry no nil obligations: a nil base yields an unspecified value
	save := c.obls
	r := c.walkFieldPath(sc.st, x, t, index, nil)
	c.obls = save
	_ = f
	return r
}

func (c *FnCtx) sevCall(sc *specCtx, e *SExpr) *Term {
	callee := e.Args[0]
	args := e.Args[1:]
	if callee.Kind == "ident" {
		switch callee.Name {
		case "len":
			x := c.sev(sc, args[0])
			return c.lenOf(sc.st, x, x.GoT, nil)
		case "contains":
			// contains(seq, x): x occurs in seq (function with witness, axiomatised once per sequence sort)
			sq := c.sev(sc, args[0])
			x := c.sev(sc, args[1])
			if !c.ts.isSliceSort(sq.Sort) {
				c.specErr(e, "contains on %s", sq.Sort)
			}
			return c.seqContains(sq, x)
		case "$called":
			// $called("pkg.F#k"): the k-th call site of pkg.F (source order) was executed on this path
			if len(args) != 1 || args[0].Kind != "str" {
				c.specErr(e, "$called takes one string literal")
			}
			if _, ok := sc.st.calls[args[0].Str]; ok {
				return tTrue
			}
			return tFalse
		case "$ret":
			// $ret("pkg.F#k"[, i]): the (i-th) result of that call on this path; if the call was not made the enclosing
			// clause is false
			if len(args) < 1 || args[0].Kind != "str" {
				c.specErr(e, "$ret takes a string literal")
			}
			i := 0
			if len(args) > 1 {
				if args[1].Kind != "int" {
					c.specErr(e, "$ret: result index must be a literal")
				}
				i = int(args[1].Int)
			}
			rs, ok := sc.st.calls[args[0].Str]
			if !ok || i >= len(rs) {
				panic(retMissing{args[0].Str})
			}
			return rs[i]
		case "indom":
			// indom(m, k): k is a key of map m
			m := c.sev(sc, args[0])
			k := c.sev(sc, args[1])
			mt, ok := types.Unalias(m.GoT).Underlying().(*types.Map)
			if !ok {
				c.specErr(e, "indom on non-map")
			}
			_, present := c.mapLookup(sc.st, m, mt, k)
			return present
		case "fresh":
			x := c.sev(sc, args[0])
			base := sc.st
			if sc.old != nil {
				base = sc.old
			}
			return mkAnd(mkLt(base.alloc, x), mkLe(x, sc.st.alloc))
		case "allocated":
			x := c.sev(sc, args[0])
			return mkAnd(mkLe(intLit(0), x), mkLe(x, sc.st.alloc))
		case "seq":
			// seq(x): the sequence view of an iterator or slice (identity)
			return c.sev(sc, args[0])
		case "string":
			// string(b): the conversion of a byte slice, the same uninterpreted function the code's conversion is
			x := c.sev(sc, args[0])
			if x.Sort == SStr {
				return x
			}
			fn := "conv_" + mangleSort(x.Sort) + "_to_" + mangleSort(SStr)
			c.smt.fun(fn, []string{x.Sort}, SStr)
			return mk(fn, SStr, x).withGo(types.Typ[types.String])
		case "dyntype":
			return mk("dyntype", "TypeTag", c.sev(sc, args[0]))
		case "unbox":
			// unbox(x, T)
			x := c.sev(sc, args[0])
			t := c.resolveType(args[1].String(), e)
			srt := c.ts.sortOf(t)
			return mk(c.unboxFn(srt), srt, x).withGo(t)
		case "box":
			x := c.sev(sc, args[0])
			if x.GoT == nil {
				c.specErr(e, "box of untyped value")
			}
			c.unboxFn(x.Sort)
			return mk("box_"+mangleSort(x.Sort), SInt, x)
		case "bytes":
			// bytes(s): the conversion []byte(s) (same uninterpreted function as in code)
			x := c.sev(sc, args[0])
			bs := c.ts.sliceSort(SInt)
			fn := "conv_" + mangleSort(SStr) + "_to_" + mangleSort(bs)
			c.smt.fun(fn, []string{SStr}, bs)
			return mk(fn, bs, x)
		case "atentry":
			// atentry(e): the value of e when the loop (or walk) whose invariant this is was entered
			if c.curEntry == nil {
				c.specErr(e, "atentry outside a loop invariant")
			}
			sc2 := &specCtx{st: c.curEntry, env: sc.env, old: sc.old, site: sc.site}
			c.curEntry.noAssume++
			r := c.sev(sc2, args[0])
			c.curEntry.noAssume--
			return r
		case "cast":
			// cast(x, T): the same reference seen at another static type (pointer conversions are the identity)
			x := c.sev(sc, args[0])
			t := c.resolveType(args[1].String(), e)
			if c.ts.sortOf(t) != x.Sort {
				c.specErr(e, "cast between different sorts %s and %s", x.Sort, c.ts.sortOf(t))
			}
			return x.withGo(t)
		case "tagof":
			t := c.resolveType(args[0].String(), e)
			return c.typeTag(t)
		}
		if f, ok := c.eng.specFuncs[callee.Name]; ok {
			var as []*Term
			for _, a := range args {
				as = append(as, c.sev(sc, a))
			}
			return c.applySpecFunc(sc, f, as, e)
		}
		// function of the current package used as a pure function? not supported
		c.specErr(e, "unknown spec function %s", callee.Name)
	}
	if callee.Kind == "sel" {
		// pkg.Func(args) or x.Method(args)
		if callee.Args[0].Kind == "ident" {
			if _, isVar := sc.env[callee.Args[0].Name]; !isVar && c.lookupLocal(sc, callee.Args[0].Name) == nil {
				if p := c.findPackage(callee.Args[0].Name); p != nil {
					fn, ok := p.Scope().Lookup(callee.Name).(*types.Func)
					if !ok {
						c.specErr(e, "unknown function %s.%s", callee.Args[0].Name, callee.Name)
					}
					var as []*Term
					for _, a := range args {
						as = append(as, c.sev(sc, a))
					}
					return c.specApplyFunc(sc, fn, nil, as, e)
				}
			}
		}
		if callee.Args[0].Kind == "ident" {
			if f, ok := c.eng.specFuncs[callee.Name]; ok && c.findPackage(callee.Args[0].Name) != nil {
				if _, isVar := sc.env[callee.Args[0].Name]; !isVar {
					var as []*Term
					for _, a := range args {
						as = append(as, c.sev(sc, a))
					}
					return c.applySpecFunc(sc, f, as, e)
				}
			}
		}
		recv := c.sev(sc, callee.Args[0])
		if recv.GoT == nil {
			c.specErr(e, "method call on value without Go type")
		}
		obj, index, _ := types.LookupFieldOrMethod(recv.GoT, true, c.pkg, callee.Name)
		if obj == nil {
			if n := ownerNamed(recv.GoT); n != nil {
				obj, index, _ = types.LookupFieldOrMethod(recv.GoT, true, n.Obj().Pkg(), callee.Name)
			}
		}
		fn, ok := obj.(*types.Func)
		if !ok {
			c.specErr(e, "no method %s on %s", callee.Name, recv.GoT)
		}
		if on := ownerNamed(recv.GoT); len(index) > 1 && (on == nil || isRepoPkg(on.Obj().Pkg())) {
			// (promoted methods of external types keep the outer receiver, as in code)
			save := c.obls
			recv = c.walkFieldPath(sc.st, recv, recv.GoT, index[:len(index)-1], nil)
			c.obls = save
		}
		var as []*Term
		for _, a := range args {
			as = append(as, c.sev(sc, a))
		}
		return c.specApplyFunc(sc, fn, recv, as, e)
	}
	c.specErr(e, "unsupported call form")
	return nil
}

// specApplyFunc: a Go function used inside a spec: library functions are uninterpreted (same symbol as in code);
// repository functions must be accessor-like with a `pure` contract of the form ensures result == expr.
func (c *FnCtx) specApplyFunc(sc *specCtx, fn *types.Func, recv *Term, args []*Term, e *SExpr) *Term {
	key := funcKey(fn)
	sig := fn.Type().(*types.Signature)
	if recv != nil && recv.GoT != nil {
		key = c.eng.canonicalMethodKey(key, recv.GoT)
	}
	if ct := c.eng.contracts[key]; ct != nil && !strings.HasPrefix(key, repoPrefix) && ct.Trusted {
		c.trustedUsed["contract: "+key] = true
	}
	if strings.HasPrefix(key, repoPrefix) && c.eng.funcs[key] != nil {
		ct := c.eng.contracts[key]
		fi := c.eng.funcs[key]
		if ct != nil && ct.Pure && fi != nil && len(ct.Ensures) >= 1 {
			// expand "ensures result == expr"
			en := ct.Ensures[0].Expr
			if en.Kind == "binary" && en.Name == "==" && en.Args[0].Kind == "ident" && en.Args[0].Name == "result" {
				env := map[string]*Term{}
				fsig := fi.Obj.Type().(*types.Signature)
				if fsig.Recv() != nil && recv != nil {
					rv := recv
					if !isPointer(fsig.Recv().Type()) && isPointer(recv.GoT) {
						rv = c.loadCell(sc.st, recv, deref(recv.GoT))
					}
					env[fsig.Recv().Name()] = rv.withGo(fsig.Recv().Type())
				}
				for i := 0; i < fsig.Params().Len() && i < len(args); i++ {
					env[fsig.Params().At(i).Name()] = args[i].withGo(fsig.Params().At(i).Type())
				}
				sc2 := &specCtx{st: sc.st, env: env, old: sc.old}
				return c.sev(sc2, en.Args[1])
			}
		}
		c.specErr(e, "repository function %s used in a spec needs a `pure` contract with `ensures result == expr`", shortFuncKey(key))
	}
	// variadic packing is not supported in specs
	rs := c.pureApp(sc.st, key, sig, recv, args)
	if len(rs) != 1 {
		c.specErr(e, "function with %d results in spec", len(rs))
	}
	c.trustedUsed["pure: "+key] = true
	return rs[0]
}

// applySpecFunc: the body of a spec function is evaluated in the scope of the package whose contract file defines it
// (unqualified names of package-level variables, constants and types resolve there).
func (c *FnCtx) applySpecFunc(sc *specCtx, f *SpecFunc, args []*Term, e *SExpr) *Term {
	if f.Pkg != "" && c.pkg != nil && c.pkg.Path() != f.Pkg {
		if p := c.eng.pkgs[f.Pkg]; p != nil && p.Types != nil {
			save := c.pkg
			c.pkg = p.Types
			defer func() { c.pkg = save }()
		}
	}
	return c.applySpecFunc1(sc, f, args, e)
}

func (c *FnCtx) applySpecFunc1(sc *specCtx, f *SpecFunc, args []*Term, e *SExpr) *Term {
	if len(args) != len(f.Params) {
		c.specErr(e, "spec function %s: %d arguments, want %d", f.Name, len(args), len(f.Params))
	}
	if f.Body == nil || f.Rec {
		// uninterpreted / recursive: SMT function
		var sorts []string
		var ptypes []types.Type
		for _, p := range f.Params {
			t := c.resolveType(p.Type, e)
			ptypes = append(ptypes, t)
			sorts = append(sorts, c.ts.sortOf(t))
		}
		rt := c.resolveType(f.Result, e)
		rs := c.ts.sortOf(rt)
		name := "sf_" + sanitize(f.Name)
		if f.Body == nil {
			c.smt.fun(name, sorts, rs)
		} else if !c.smt.declared[name] {
			c.smt.declared[name] = true // reserve (recursion)
			env := map[string]*Term{}
			var ps []string
			for i, p := range f.Params {
				pn := "p_" + sanitize(p.Name)
				env[p.Name] = leaf(pn, sorts[i]).withGo(ptypes[i])
				ps = append(ps, fmt.Sprintf("(%s %s)", pn, sorts[i]))
			}
			sc2 := &specCtx{st: sc.st, env: env}
			body := c.sev(sc2, f.Body)
			c.smt.decls = append(c.smt.decls, Decl{name, fmt.Sprintf("(define-fun-rec %s (%s) %s %s)", name, strings.Join(ps, " "), rs, body)})
		}
		if len(args) == 0 {
			r := leaf(name, rs)
			return r.withGo(rt)
		}
		for i := range args {
			if args[i].Sort != sorts[i] {
				c.specErr(e, "spec function %s: argument %d has sort %s, want %s", f.Name, i+1, args[i].Sort, sorts[i])
			}
		}
		return mk(name, rs, args...).withGo(rt)
	}
	if !f.Macro {
		return c.applyDefinedFunc(sc, f, args, e)
	}
	// macro: evaluate the body with parameters bound (heap-dependent bodies see the current state)
	if c.specDepth > 40 {
		c.specErr(e, "spec function recursion too deep (mark it rec)")
	}
	env := map[string]*Term{}
	for i, p := range f.Params {
		t := c.resolveType(p.Type, e)
		a := args[i]
		if a.Sort != c.ts.sortOf(t) {
			c.specErr(e, "spec function %s: argument %s has sort %s, want %s", f.Name, p.Name, a.Sort, c.ts.sortOf(t))
		}
		env[p.Name] = a.withGo(t)
	}
	sc2 := &specCtx{st: sc.st, env: env, old: sc.old, site: token.NoPos, noLocals: true}
	c.specDepth++
	var r *Term
	func() {
		defer func() { c.specDepth-- }()
		r = c.sev(sc2, f.Body)
	}()
	if f.Result != "" {
		rt := c.resolveType(f.Result, e)
		if r.GoT == nil {
			r = r.withGo(rt)
		}
	}
	return r
}

// findPackage resolves a package name used in a spec.
func (c *FnCtx) findPackage(name string) *types.Package {
	if c.pkg != nil {
		for _, imp := range c.pkg.Imports() {
			if imp.Name() == name {
				return imp
			}
		}
		if c.pkg.Name() == name {
			return c.pkg
		}
	}
	var found *types.Package
	for _, p := range c.eng.pkgs {
		if p.Types != nil && p.Types.Name() == name {
			if found == nil || len(p.PkgPath) < len(found.Path()) {
				found = p.Types
			}
		}
	}
	return found
}

// resolveType parses a type written in a spec: int, string, bool, *T, []T, map[K]V, pkg.T, T.
func (c *FnCtx) resolveType(s string, e *SExpr) types.Type {
	s = strings.TrimSpace(s)
	switch s {
	case "int":
		return types.Typ[types.Int]
	case "string":
		return types.Typ[types.String]
	case "bool":
		return types.Typ[types.Bool]
	case "byte":
		return types.Typ[types.Uint8]
	case "any":
		return types.NewInterfaceType(nil, nil)
	case "typetag":
		return typeTagType
	case "":
		c.specErr(e, "empty type")
	}
	if strings.HasPrefix(s, "*") {
		return types.NewPointer(c.resolveType(s[1:], e))
	}
	if strings.HasPrefix(s, "[]") {
		return types.NewSlice(c.resolveType(s[2:], e))
	}
	if strings.HasPrefix(s, "map[") {
		depth := 0
		for i := 3; i < len(s); i++ {
			if s[i] == '[' {
				depth++
			}
			if s[i] == ']' {
				depth--
				if depth == 0 {
					return types.NewMap(c.resolveType(s[4:i], e), c.resolveType(s[i+1:], e))
				}
			}
		}
	}
	if i := strings.LastIndex(s, "."); i >= 0 {
		p := c.findPackage(s[:i])
		if p == nil {
			c.specErr(e, "unknown package in type %s", s)
		}
		if tn, ok := p.Scope().Lookup(s[i+1:]).(*types.TypeName); ok {
			return tn.Type()
		}
		c.specErr(e, "unknown type %s", s)
	}
	if c.pkg != nil {
		if tn, ok := c.pkg.Scope().Lookup(s).(*types.TypeName); ok {
			return tn.Type()
		}
	}
	if tn, ok := types.Universe.Lookup(s).(*types.TypeName); ok {
		return tn.Type()
	}
	// search all repository packages
	for path, p := range c.eng.pkgs {
		if strings.HasPrefix(path, repoPrefix) && p.Types != nil {
			if tn, ok := p.Types.Scope().Lookup(s).(*types.TypeName); ok {
				return tn.Type()
			}
		}
	}
	c.specErr(e, "unknown type %s", s)
	return nil
}

// inferPatterns picks E-matching triggers for a quantified body: the smallest applications of
// uninterpreted/select symbols that mention bound variables, covering all of them.
func (c *FnCtx) inferPatterns(bs []Bound, body *Term) [][]*Term {
	bound := map[string]bool{}
	for _, b := range bs {
		bound[b.Name] = true
	}
	var cands []*Term
	seen := map[string]bool{}
	var walk func(t *Term, underQuant bool)
	walk = func(t *Term, underQuant bool) {
		if len(t.Bound) > 0 {
			for _, a := range t.Args {
				walk(a, true)
			}
			return
		}
		for _, a := range t.Args {
			walk(a, underQuant)
		}
		if len(t.Args) == 0 || underQuant {
			return
		}
		if !isTriggerHead(t.Op) {
			return
		}
		if !mentionsAny(t, bound) || containsInterp(t) {
			return
		}
		s := t.String()
		if !seen[s] {
			seen[s] = true
			cands = append(cands, t)
		}
	}
	walk(body, false)
	if len(cands) == 0 {
		return nil
	}
	// single terms covering all bound variables, smallest first
	var full []*Term
	for _, t := range cands {
		all := true
		for b := range bound {
			if !mentions(t, b) {
				all = false
			}
		}
		if all {
			full = append(full, t)
		}
	}
	if len(full) > 0 {
		// drop candidates that contain another full candidate as a proper subterm
		var pats [][]*Term
		for _, t := range full {
			minimal := true
			for _, u := range full {
				if u != t && len(u.String()) < len(t.String()) && strings.Contains(t.String(), u.String()) {
					minimal = false
				}
			}
			if minimal {
				pats = append(pats, []*Term{t})
			}
			if len(pats) >= 3 {
				break
			}
		}
		return pats
	}
	// multi-pattern: greedily cover
	var multi []*Term
	covered := map[string]bool{}
	for _, t := range cands {
		adds := false
		for b := range bound {
			if !covered[b] && mentions(t, b) {
				adds = true
			}
		}
		if adds {
			multi = append(multi, t)
			for b := range bound {
				if mentions(t, b) {
					covered[b] = true
				}
			}
		}
	}
	if len(covered) == len(bound) {
		return [][]*Term{multi}
	}
	return nil
}

func isTriggerHead(op string) bool {
	switch op {
	case "and", "or", "not", "=>", "=", "ite", "+", "-", "*", "<", "<=", ">", ">=", "div", "mod", "distinct", "store":
		return false
	}
	return true
}

func mentionsAny(t *Term, names map[string]bool) bool {
	if len(t.Args) == 0 {
		return names[t.Op]
	}
	for _, a := range t.Args {
		if mentionsAny(a, names) {
			return true
		}
	}
	return false
}

// containsInterp: arithmetic inside a trigger makes it unusable for most solvers
func containsInterp(t *Term) bool {
	if hasInterp(t) {
		return true
	}
	for _, a := range t.Args {
		switch a.Op {
		case "+", "-", "*", "ite", "and", "or", "not", "=", "<", "<=", "div", "mod":
			if len(a.Args) > 0 {
				return true
			}
		}
		if containsInterp(a) {
			return true
		}
	}
	return false
}

// ghostField resolves a ghost field of an external type declared in a library spec.
func (c *FnCtx) ghostField(t types.Type, name string, e *SExpr) (heapName, sort string, gt types.Type) {
	n := ownerNamed(t)
	if n == nil {
		c.specErr(e, "ghost field %s on unnamed type", name)
	}
	key := n.Obj().Pkg().Path() + "." + n.Obj().Name() + "." + name
	ty, ok := c.eng.ghostFields[key]
	if !ok {
		c.specErr(e, "undeclared ghost field %s", key)
	}
	gt = c.resolveType(ty, e)
	return "GH_" + sanitize(key), c.ts.sortOf(gt), gt
}

// applyDefinedFunc: a spec function as an SMT function with a definitional axiom triggered on its applications.
// The heap arrays (and globals) its body reads become leading parameters, so the function is well defined in
// every state and applications in different states are different terms.
func (c *FnCtx) applyDefinedFunc(sc *specCtx, f *SpecFunc, args []*Term, e *SExpr) *Term {
	if c.specDefs == nil {
		c.specDefs = map[string]*specDef{}
	}
	def, ok := c.specDefs[f.Name]
	if !ok {
		if c.specDepth > 40 {
			c.specErr(e, "spec function recursion too deep (mark it rec)")
		}
		tst := &State{vars: map[types.Object]*Term{}, heap: map[string]*Term{}, ghost: map[string]*Term{}, alloc: leaf("alloc$tmpl", SInt), tmpl: &tmplInfo{vars: map[string]*Term{}}}
		env := map[string]*Term{}
		var pb []Bound
		var pvars []*Term
		for _, p := range f.Params {
			t := c.resolveType(p.Type, e)
			v := leaf("p$"+sanitize(p.Name), c.ts.sortOf(t)).withGo(t)
			env[p.Name] = v
			pb = append(pb, Bound{v.Op, v.Sort})
			pvars = append(pvars, v)
		}
		sc2 := &specCtx{st: tst, env: env, old: nil, site: token.NoPos}
		c.specDepth++
		saveDepth := c.qdepth
		c.qdepth += 1
		savePre := c.pre
		c.pre = nil
		var body *Term
		func() {
			// restore the context also when the body cannot be evaluated (the panic is recovered further up)
			defer func() {
				c.pre = savePre
				c.qdepth = saveDepth
				c.specDepth--
			}()
			body = c.sev(sc2, f.Body)
		}()
		def = &specDef{name: "sf_" + sanitize(f.Name), resSort: body.Sort, resType: body.GoT}
		if mentions(body, "alloc$tmpl") {
			// the allocation watermark becomes a parameter
			tst.tmpl.names = append(tst.tmpl.names, "A:alloc")
			tst.tmpl.vars["A:alloc"] = leaf("alloc$tmpl", SInt)
		}
		if f.Result != "" {
			def.resType = c.resolveType(f.Result, e)
			if rs := c.ts.sortOf(def.resType); rs != body.Sort {
				c.specErr(e, "spec function %s: body has sort %s, declared result %s", f.Name, body.Sort, rs)
			}
		}
		var hb []Bound
		var hvars []*Term
		for _, hn := range tst.tmpl.names {
			v := tst.tmpl.vars[hn]
			def.heapNames = append(def.heapNames, hn)
			def.heapSorts = append(def.heapSorts, v.Sort)
			hb = append(hb, Bound{v.Op, v.Sort})
			hvars = append(hvars, v)
		}
		var sorts []string
		for _, b := range append(hb, pb...) {
			sorts = append(sorts, b.Sort)
		}
		c.smt.fun(def.name, sorts, def.resSort)
		all := append(append([]*Term{}, hvars...), pvars...)
		if len(all) == 0 {
			c.smt.axiom("def:"+def.name, mkEq(leaf(def.name, def.resSort), body).String(), false, def.name)
		} else {
			app := mk(def.name, def.resSort, all...)
			ax := mkForall(append(hb, pb...), mkEq(app, body), []*Term{app})
			c.smt.axiom("def:"+def.name, ax.String(), false, def.name)
		}
		c.specDefs[f.Name] = def
	}
	var all []*Term
	for i, hn := range def.heapNames {
		if hn == "A:alloc" {
			all = append(all, sc.st.alloc)
			continue
		}
		if strings.HasPrefix(hn, "G:") {
			t, ok := sc.st.heap[hn]
			if !ok {
				// resolve the global through its object
				t = c.globalByName(sc.st, hn, e)
			}
			all = append(all, t)
			continue
		}
		_, vs := arraySorts(def.heapSorts[i])
		all = append(all, c.heapArr(sc.st, hn, vs))
	}
	for i, p := range f.Params {
		t := c.resolveType(p.Type, e)
		if args[i].Sort != c.ts.sortOf(t) {
			c.specErr(e, "spec function %s: argument %s has sort %s, want %s", f.Name, p.Name, args[i].Sort, c.ts.sortOf(t))
		}
		all = append(all, args[i])
	}
	if len(all) == 0 {
		return leaf(def.name, def.resSort).withGo(def.resType)
	}
	return mk(def.name, def.resSort, all...).withGo(def.resType)
}

func (c *FnCtx) globalByName(st *State, hn string, e *SExpr) *Term {
	for _, p := range c.eng.pkgs {
		if p.Types == nil || !isRepoPkg(p.Types) {
			continue
		}
		for _, n := range p.Types.Scope().Names() {
			if v, ok := p.Types.Scope().Lookup(n).(*types.Var); ok {
				if "G:"+shortPkg(v.Pkg())+"."+v.Name() == hn {
					return c.globalRead(st, v)
				}
			}
		}
	}
	c.specErr(e, "cannot resolve global %s", hn)
	return nil
}

// seqContains: membership in a sequence as a function with a witness function (Dafny-style axiomatisation).
func (c *FnCtx) seqContains(sq, x *Term) *Term {
	srt := sq.Sort
	es := c.ts.elemSort(srt)
	if x.Sort != es {
		panic(unsupported{fmt.Sprintf("contains: element sort %s vs %s", x.Sort, es)})
	}
	fn := "contains_" + srt
	wit := "containsw_" + srt
	c.smt.fun(fn, []string{srt, es}, SBool)
	c.smt.fun(wit, []string{srt, es}, SInt)
	c.smt.axiom(fn+"_intro", fmt.Sprintf("(forall ((s %s) (x %s) (i Int)) (! (=> (and (<= 0 i) (< i (len_%s s)) (= (select (arr_%s s) i) x)) (%s s x)) :pattern ((select (arr_%s s) i) (%s s x))))", srt, es, srt, srt, fn, srt, fn), false, fn)
	c.smt.axiom(fn+"_elim", fmt.Sprintf("(forall ((s %s) (x %s)) (! (=> (%s s x) (and (<= 0 (%s s x)) (< (%s s x) (len_%s s)) (= (select (arr_%s s) (%s s x)) x))) :pattern ((%s s x))))", srt, es, fn, wit, wit, srt, srt, wit, fn), false, fn)
	// every element is contained (triggered on reads)
	c.smt.axiom(fn+"_self", fmt.Sprintf("(forall ((s %s) (i Int)) (! (=> (and (<= 0 i) (< i (len_%s s))) (%s s (select (arr_%s s) i))) :pattern ((%s s (select (arr_%s s) i)))))", srt, srt, fn, srt, fn, srt), false, fn)
	return mk(fn, SBool, sq, x)
}

// typeTagType: the spec-level type of dynamic type tags (sort TypeTag).
var typeTagType = types.NewNamed(types.NewTypeName(0, nil, "typetag", nil), types.Typ[types.Int], nil)


// localsInOrder: the local variables (parameters, results, := and var declarations) of the function in source order.
func localsInOrder(fi *FuncInfo) []*types.Var {
	var out []*types.Var
	if fi == nil || fi.Decl == nil {
		return nil
	}
	info := fi.Pkg.TypesInfo
	ast.Inspect(fi.Decl, func(n ast.Node) bool {
		if id, ok := n.(*ast.Ident); ok {
			if v, ok := info.Defs[id].(*types.Var); ok && !v.IsField() {
				out = append(out, v)
			}
		}
		return true
	})
	return out
}

func (c *FnCtx) localByOrdinal(ord int) *types.Var {
	ls := localsInOrder(c.fi)
	if ord >= 0 && ord < len(ls) {
		return ls[ord]
	}
	return nil
}


// signatureVars: number of variables declared by the function's signature (receiver, parameters, named results); they
// come first in localsInOrder.
func (c *FnCtx) signatureVars() int {
	sig, ok := c.fi.Obj.Type().(*types.Signature)
	if !ok {
		return 0
	}
	n := 0
	named := func(v *types.Var) bool { return v != nil && v.Name() != "" }
	if named(sig.Recv()) {
		n++
	}
	for i := 0; i < sig.Params().Len(); i++ {
		if named(sig.Params().At(i)) {
			n++
		}
	}
	for i := 0; i < sig.Results().Len(); i++ {
		if named(sig.Results().At(i)) {
			n++
		}
	}
	return n
}
