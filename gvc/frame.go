package main

import (
	"fmt"
	"go/ast"
	"go/types"
	"sort"
	"strings"
)

type heapLoc struct {
	name string // heap array
	sort string // value sort
	ref  *Term
}

// locHeaps resolves an assigns item to heap locations, evaluated in state st (the pre-state of a call or function).
func (c *FnCtx) locHeaps(st *State, loc *SExpr, env map[string]*Term) []heapLoc {
	switch loc.Kind {
	case "sel":
		base := c.specEval(st, loc.Args[0], env, st)
		if strings.HasPrefix(loc.Name, "$") {
			hn, srt, _ := c.ghostField(base.GoT, loc.Name, loc)
			return []heapLoc{{hn, srt, base}}
		}
		bt := base.GoT
		if bt == nil || !isPointer(bt) || !isRepoStruct(deref(bt)) {
			c.unsupportedf(nil, "%s: assigns %s: not a field of a repository struct behind a pointer", loc.Pos, loc)
		}
		s := structOf(deref(bt))
		name := c.ts.sortOf(deref(bt))
		idx := fieldIndex(s, loc.Name)
		if idx < 0 {
			c.unsupportedf(nil, "%s: assigns %s: no such field", loc.Pos, loc)
		}
		f := s.Field(idx)
		return []heapLoc{{fieldHeapName(name, f.Name()), c.ts.sortOf(f.Type()), base}}
	case "index":
		m := c.specEval(st, loc.Args[0], env, st)
		if m.GoT == nil {
			c.unsupportedf(nil, "%s: assigns %s: untyped", loc.Pos, loc)
		}
		mt, ok := types.Unalias(m.GoT).Underlying().(*types.Map)
		if !ok {
			c.unsupportedf(nil, "%s: assigns %s: not a map", loc.Pos, loc)
		}
		ks, vs := c.mapSorts(mt)
		return []heapLoc{{mapDomName(ks, vs), arraySort(ks, SBool), m}, {mapValName(ks, vs), arraySort(ks, vs), m}}
	case "unary":
		if loc.Name == "*" {
			p := c.specEval(st, loc.Args[0], env, st)
			et := deref(p.GoT)
			if isRepoStruct(et) {
				s := structOf(et)
				name := c.ts.sortOf(et)
				var out []heapLoc
				for i := 0; i < s.NumFields(); i++ {
					f := s.Field(i)
					out = append(out, heapLoc{fieldHeapName(name, f.Name()), c.ts.sortOf(f.Type()), p})
				}
				return out
			}
			srt := c.ts.sortOf(et)
			return []heapLoc{{"Hp_" + mangleSort(srt), srt, p}}
		}
	}
	c.unsupportedf(nil, "%s: unsupported assigns item %s", loc.Pos, loc)
	return nil
}

// checkFrame: at a return, every heap location allocated before the call and not listed in `assigns`
// holds its entry value.
func (c *FnCtx) checkFrame(st *State, site ast.Node) {
	if c.contract == nil || !c.contract.AssignsOK {
		return
	}
	env := c.entryEnv(c.pre)
	c.applyLets(c.pre, c.contract, env, nil)
	allowed := map[string][]*Term{}
	for _, a := range c.contract.Assigns {
		for _, hl := range c.locHeaps(c.pre, a, env) {
			allowed[hl.name] = append(allowed[hl.name], hl.ref)
		}
	}
	var names []string
	for name, t := range st.heap {
		if strings.HasPrefix(name, "G:") {
			continue
		}
		p, ok := c.pre.heap[name]
		if !ok || p.String() == t.String() {
			continue
		}
		names = append(names, name)
	}
	sort.Strings(names)
	for _, name := range names {
		cur, old := st.heap[name], c.pre.heap[name]
		c.quantN++
		r := leaf(fmt.Sprintf("fr!%d", c.quantN), SInt)
		conds := []*Term{mkLe(intLit(0), r), mkLe(r, c.pre.alloc)}
		for _, a := range allowed[name] {
			conds = append(conds, mkNot(mkEq(r, a)))
		}
		g := mkForall([]Bound{{r.Op, SInt}}, mkImplies(mkAnd(conds...), mkEq(mkSelect(cur, r), mkSelect(old, r))), []*Term{mkSelect(cur, r)})
		c.oblige(st, "frame", c.fi.Decl, name, "only the locations in `assigns` change in "+name, g)
	}
}
