package main

import (
	"fmt"
	"go/types"
	"sort"
	"strings"
)

// Term is an SMT-LIB term with its sort and (optionally) the Go type it stands for.
type Term struct {
	Op    string
	Args  []*Term
	Sort  string
	GoT   types.Type
	Bound []Bound   // for quantifiers
	Pats  [][]*Term // for quantifiers
}

type Bound struct {
	Name string
	Sort string
}

const (
	SInt  = "Int"
	SBool = "Bool"
	SStr  = "Str"
)

func (t *Term) String() string {
	var sb strings.Builder
	t.write(&sb)
	return sb.String()
}

func (t *Term) write(sb *strings.Builder) {
	if t.Op == "forall" || t.Op == "exists" {
		sb.WriteString("(" + t.Op + " (")
		for _, b := range t.Bound {
			sb.WriteString("(" + b.Name + " " + b.Sort + ")")
		}
		sb.WriteString(") ")
		if len(t.Pats) > 0 {
			sb.WriteString("(! ")
			t.Args[0].write(sb)
			for _, p := range t.Pats {
				sb.WriteString(" :pattern (")
				for i, q := range p {
					if i > 0 {
						sb.WriteString(" ")
					}
					q.write(sb)
				}
				sb.WriteString(")")
			}
			sb.WriteString(")")
		} else {
			t.Args[0].write(sb)
		}
		sb.WriteString(")")
		return
	}
	if len(t.Args) == 0 {
		sb.WriteString(t.Op)
		return
	}
	sb.WriteString("(" + t.Op)
	for _, a := range t.Args {
		sb.WriteString(" ")
		a.write(sb)
	}
	sb.WriteString(")")
}

func mk(op, sort string, args ...*Term) *Term { return &Term{Op: op, Args: args, Sort: sort} }
func leaf(op, sort string) *Term              { return &Term{Op: op, Sort: sort} }
func (t *Term) withGo(g types.Type) *Term {
	c := *t
	c.GoT = g
	return &c
}

var (
	tTrue  = leaf("true", SBool)
	tFalse = leaf("false", SBool)
)

func intLit(n int64) *Term {
	if n < 0 {
		return mk("-", SInt, leaf(fmt.Sprint(-n), SInt))
	}
	return leaf(fmt.Sprint(n), SInt)
}

func isLit(t *Term, s string) bool { return len(t.Args) == 0 && t.Op == s }

func mkNot(a *Term) *Term {
	if isLit(a, "true") {
		return tFalse
	}
	if isLit(a, "false") {
		return tTrue
	}
	if a.Op == "not" && len(a.Args) == 1 {
		return a.Args[0]
	}
	return mk("not", SBool, a)
}

func mkAnd(as ...*Term) *Term {
	var out []*Term
	for _, a := range as {
		if a == nil || isLit(a, "true") {
			continue
		}
		if isLit(a, "false") {
			return tFalse
		}
		if a.Op == "and" && len(a.Args) > 0 {
			out = append(out, a.Args...)
			continue
		}
		out = append(out, a)
	}
	if len(out) == 0 {
		return tTrue
	}
	if len(out) == 1 {
		return out[0]
	}
	return mk("and", SBool, out...)
}

func mkOr(as ...*Term) *Term {
	var out []*Term
	for _, a := range as {
		if a == nil || isLit(a, "false") {
			continue
		}
		if isLit(a, "true") {
			return tTrue
		}
		out = append(out, a)
	}
	if len(out) == 0 {
		return tFalse
	}
	if len(out) == 1 {
		return out[0]
	}
	return mk("or", SBool, out...)
}

func mkImplies(a, b *Term) *Term {
	if isLit(a, "true") {
		return b
	}
	if isLit(a, "false") || isLit(b, "true") {
		return tTrue
	}
	return mk("=>", SBool, a, b)
}

func mkEq(a, b *Term) *Term {
	if a.Sort != b.Sort {
		panic(fmt.Sprintf("mkEq: sort mismatch %s:%s vs %s:%s", a, a.Sort, b, b.Sort))
	}
	if a.String() == b.String() {
		return tTrue
	}
	return mk("=", SBool, a, b)
}

func mkIte(c, a, b *Term) *Term {
	if isLit(c, "true") {
		return a
	}
	if isLit(c, "false") {
		return b
	}
	if a.Sort != b.Sort {
		panic(fmt.Sprintf("mkIte: sort mismatch %s vs %s", a.Sort, b.Sort))
	}
	r := mk("ite", a.Sort, c, a, b)
	r.GoT = a.GoT
	return r
}

func mkSelect(arr, idx *Term) *Term {
	// arr sort is "(Array K V)"
	_, v := arraySorts(arr.Sort)
	return mk("select", v, arr, idx)
}

func mkStore(arr, idx, val *Term) *Term {
	return mk("store", arr.Sort, arr, idx, val)
}

func arraySort(k, v string) string { return "(Array " + k + " " + v + ")" }

// arraySorts splits "(Array K V)" into K and V (K, V may themselves be parenthesised).
func arraySorts(s string) (string, string) {
	if !strings.HasPrefix(s, "(Array ") {
		panic("not an array sort: " + s)
	}
	body := s[len("(Array ") : len(s)-1]
	depth := 0
	for i, c := range body {
		switch c {
		case '(':
			depth++
		case ')':
			depth--
		case ' ':
			if depth == 0 {
				return body[:i], body[i+1:]
			}
		}
	}
	panic("bad array sort: " + s)
}

func mkAdd(a, b *Term) *Term {
	if isLit(b, "0") {
		return a
	}
	if isLit(a, "0") {
		return b
	}
	return mk("+", SInt, a, b)
}
func mkSub(a, b *Term) *Term {
	if isLit(b, "0") {
		return a
	}
	return mk("-", SInt, a, b)
}
func mkLe(a, b *Term) *Term { return mk("<=", SBool, a, b) }
func mkLt(a, b *Term) *Term { return mk("<", SBool, a, b) }

// cleanPats drops triggers that contain interpreted symbols (solvers reject them).
func cleanPats(pats [][]*Term) [][]*Term {
	var out [][]*Term
	for _, p := range pats {
		ok := true
		for _, t := range p {
			if hasInterp(t) {
				ok = false
			}
		}
		if ok {
			out = append(out, p)
		}
	}
	return out
}

func hasInterp(t *Term) bool {
	if strings.HasPrefix(t.Op, "len_Slice_") || strings.HasPrefix(t.Op, "isnil_Slice_") {
		return true // defined functions that expand to if-then-else
	}
	switch t.Op {
	case "+", "-", "*", "ite", "and", "or", "not", "=", "<", "<=", ">", ">=", "div", "mod", "=>", "forall", "exists", "distinct":
		if len(t.Args) > 0 {
			return true
		}
	}
	for _, a := range t.Args {
		if hasInterp(a) {
			return true
		}
	}
	return false
}

func mkForall(bs []Bound, body *Term, pats ...[]*Term) *Term {
	pats = cleanPats(pats)
	if len(bs) == 0 {
		return body
	}
	if isLit(body, "true") {
		return tTrue
	}
	return &Term{Op: "forall", Bound: bs, Args: []*Term{body}, Sort: SBool, Pats: pats}
}
func mkExists(bs []Bound, body *Term, pats ...[]*Term) *Term {
	pats = cleanPats(pats)
	if len(bs) == 0 {
		return body
	}
	return &Term{Op: "exists", Bound: bs, Args: []*Term{body}, Sort: SBool, Pats: pats}
}

// subst replaces leaf symbols by terms (capture is avoided by construction: bound names are unique).
func subst(t *Term, m map[string]*Term) *Term {
	if len(m) == 0 {
		return t
	}
	if len(t.Args) == 0 && len(t.Bound) == 0 {
		if r, ok := m[t.Op]; ok {
			return r
		}
		return t
	}
	c := *t
	c.Args = make([]*Term, len(t.Args))
	for i, a := range t.Args {
		c.Args[i] = subst(a, m)
	}
	if len(t.Pats) > 0 {
		c.Pats = make([][]*Term, len(t.Pats))
		for i, p := range t.Pats {
			c.Pats[i] = make([]*Term, len(p))
			for j, q := range p {
				c.Pats[i][j] = subst(q, m)
			}
		}
	}
	return &c
}

// mentions reports whether symbol s occurs in t.
func mentions(t *Term, s string) bool {
	if len(t.Args) == 0 {
		return t.Op == s
	}
	for _, a := range t.Args {
		if mentions(a, s) {
			return true
		}
	}
	return false
}

// ---------------------------------------------------------------------------
// SMT context: declarations shared by all obligations of one run.

type Decl struct {
	Name string
	Text string
}

type SMT struct {
	decls    []Decl          // in dependency order
	declared map[string]bool // by name
	axioms   []Axiom
	fresh    map[string]int
	strLits  map[string]*Term
	tags     map[string]*Term // type tags
	tagList  []string
	lastLib  []string // names of the assumed (library) axioms included by the last preamble call
}

type Axiom struct {
	Name  string
	Text  string
	Lib   bool     // part of the trusted base (library contract) rather than a definitional axiom
	Needs []string // the axiom is emitted only when one of these symbols occurs in the query (empty: always)
}

func newSMT() *SMT {
	s := &SMT{declared: map[string]bool{}, fresh: map[string]int{}, strLits: map[string]*Term{}, tags: map[string]*Term{}}
	s.declare("Str", "(declare-sort Str 0)")
	s.declare("slen", "(declare-fun slen (Str) Int)")
	s.declare("sbyte", "(declare-fun sbyte (Str Int) Int)")
	s.declare("sconcat", "(declare-fun sconcat (Str Str) Str)")
	s.declare("sslice", "(declare-fun sslice (Str Int Int) Str)")
	s.declare("TypeTag", "(declare-sort TypeTag 0)")
	s.declare("dyntype", "(declare-fun dyntype (Int) TypeTag)")
	s.declare("tag_nil", "(declare-const tag_nil TypeTag)")
	s.axiom("slen_nonneg", "(forall ((s Str)) (! (>= (slen s) 0) :pattern ((slen s))))", false, "slen")
	s.axiom("sbyte_range", "(forall ((s Str) (i Int)) (! (and (<= 0 (sbyte s i)) (<= (sbyte s i) 255)) :pattern ((sbyte s i))))", false, "sbyte")
	s.axiom("sconcat_len", "(forall ((a Str) (b Str)) (! (= (slen (sconcat a b)) (+ (slen a) (slen b))) :pattern ((sconcat a b))))", false, "sconcat")
	s.axiom("sconcat_byte", "(forall ((a Str) (b Str) (i Int)) (! (= (sbyte (sconcat a b) i) (ite (< i (slen a)) (sbyte a i) (sbyte b (- i (slen a))))) :pattern ((sbyte (sconcat a b) i))))", false, "sconcat")
	s.axiom("sconcat_unit_l", "(forall ((a Str) (b Str)) (! (=> (= (slen a) 0) (= (sconcat a b) b)) :pattern ((sconcat a b))))", false, "sconcat")
	s.axiom("sconcat_unit_r", "(forall ((a Str) (b Str)) (! (=> (= (slen b) 0) (= (sconcat a b) a)) :pattern ((sconcat a b))))", false, "sconcat")
	s.axiom("sconcat_assoc", "(forall ((a Str) (b Str) (c Str)) (! (= (sconcat (sconcat a b) c) (sconcat a (sconcat b c))) :pattern ((sconcat (sconcat a b) c))))", false, "sconcat")
	s.axiom("sslice_len", "(forall ((a Str) (i Int) (j Int)) (! (=> (and (<= 0 i) (<= i j) (<= j (slen a))) (= (slen (sslice a i j)) (- j i))) :pattern ((sslice a i j))))", false, "sslice")
	s.axiom("sslice_byte", "(forall ((a Str) (i Int) (j Int) (k Int)) (! (=> (and (<= 0 i) (<= i j) (<= j (slen a)) (<= 0 k) (< k (- j i))) (= (sbyte (sslice a i j) k) (sbyte a (+ i k)))) :pattern ((sbyte (sslice a i j) k))))", false, "sslice")
	s.axiom("sslice_full", "(forall ((a Str)) (! (= (sslice a 0 (slen a)) a) :pattern ((sslice a 0 (slen a)))))", false, "sslice")
	s.axiom("dyntype_nil", "(= (dyntype 0) tag_nil)", false, "dyntype")
	return s
}

func (s *SMT) declare(name, text string) {
	if s.declared[name] {
		return
	}
	s.declared[name] = true
	s.decls = append(s.decls, Decl{name, text})
}

func (s *SMT) axiom(name, text string, lib bool, needs ...string) {
	key := "axiom:" + name
	if s.declared[key] {
		return
	}
	s.declared[key] = true
	s.axioms = append(s.axioms, Axiom{name, text, lib, needs})
}

// symbolsOf returns the set of identifiers occurring in SMT text.
func symbolsOf(text string, into map[string]bool) {
	start := -1
	for i := 0; i <= len(text); i++ {
		var c byte = ' '
		if i < len(text) {
			c = text[i]
		}
		if c == '(' || c == ')' || c == ' ' || c == '\n' || c == '\t' {
			if start >= 0 {
				into[text[start:i]] = true
				start = -1
			}
		} else if start < 0 {
			start = i
		}
	}
}

func (s *SMT) freshName(base string) string {
	base = sanitize(base)
	s.fresh[base]++
	return fmt.Sprintf("%s!%d", base, s.fresh[base])
}

func (s *SMT) freshConst(base, sort string) *Term {
	n := s.freshName(base)
	s.decls = append(s.decls, Decl{n, fmt.Sprintf("(declare-const %s %s)", n, sort)})
	return leaf(n, sort)
}

func (s *SMT) fun(name string, argSorts []string, res string) {
	s.declare(name, fmt.Sprintf("(declare-fun %s (%s) %s)", name, strings.Join(argSorts, " "), res))
}

func sanitize(x string) string {
	var sb strings.Builder
	for _, c := range x {
		switch {
		case c >= 'a' && c <= 'z', c >= 'A' && c <= 'Z', c >= '0' && c <= '9', c == '_', c == '.', c == '$', c == '!':
			sb.WriteRune(c)
		case c == '*':
			sb.WriteString("P")
		case c == '[' || c == ']':
			sb.WriteString("_")
		case c == '/':
			sb.WriteString(".")
		default:
			sb.WriteString("_")
		}
	}
	return sb.String()
}

// strLit returns the constant standing for a Go string literal, with its length and bytes asserted.
func (s *SMT) strLit(v string) *Term {
	if t, ok := s.strLits[v]; ok {
		return t
	}
	name := fmt.Sprintf("str!%d", len(s.strLits))
	t := leaf(name, SStr)
	s.strLits[v] = t
	s.decls = append(s.decls, Decl{name, fmt.Sprintf("(declare-const %s Str) ; %q", name, v)})
	var facts []string
	facts = append(facts, fmt.Sprintf("(= (slen %s) %d)", name, len(v)))
	if len(v) <= 64 {
		for i := 0; i < len(v); i++ {
			facts = append(facts, fmt.Sprintf("(= (sbyte %s %d) %d)", name, i, v[i]))
		}
	}
	s.axiom("lit:"+name, "(and "+strings.Join(facts, " ")+")", false, name)
	if v == "" {
		// the empty string is the only string of length 0
		s.axiom("lit:empty_unique", fmt.Sprintf("(forall ((s Str)) (! (=> (= (slen s) 0) (= s %s)) :pattern ((slen s))))", name), false, name)
	}
	return t
}

// strLitDistinct emits pairwise distinctness of all literals seen so far (called at emission time).
func (s *SMT) strLitDistinct() string {
	if len(s.strLits) < 2 {
		return ""
	}
	var names []string
	for _, t := range s.strLits {
		names = append(names, t.Op)
	}
	sort.Strings(names)
	return "(assert (distinct " + strings.Join(names, " ") + "))"
}

func (s *SMT) tag(name string) *Term {
	name = "tag_" + sanitize(name)
	if t, ok := s.tags[name]; ok {
		return t
	}
	t := leaf(name, "TypeTag")
	s.tags[name] = t
	s.tagList = append(s.tagList, name)
	s.decls = append(s.decls, Decl{name, fmt.Sprintf("(declare-const %s TypeTag)", name)})
	return t
}

func (s *SMT) tagDistinct() string {
	names := append([]string{"tag_nil"}, s.tagList...)
	if len(names) < 2 {
		return ""
	}
	return "(assert (distinct " + strings.Join(names, " ") + "))"
}

// preamble renders the declarations and the axioms relevant to the given query body.
func (s *SMT) preamble(body string) string {
	s.lastLib = nil
	syms := map[string]bool{}
	symbolsOf(body, syms)
	for _, d := range s.decls {
		if strings.HasPrefix(d.Text, "(define-fun") {
			// definitions mention other symbols
			if syms[d.Name] {
				symbolsOf(d.Text, syms)
			}
		}
	}
	included := make([]bool, len(s.axioms))
	for changed := true; changed; {
		changed = false
		for i, a := range s.axioms {
			if included[i] {
				continue
			}
			rel := len(a.Needs) == 0
			for _, n := range a.Needs {
				if syms[n] {
					rel = true
				}
			}
			if rel {
				included[i] = true
				symbolsOf(a.Text, syms)
				changed = true
			}
		}
		for _, d := range s.decls {
			if strings.HasPrefix(d.Text, "(define-fun") && syms[d.Name] {
				n := len(syms)
				symbolsOf(d.Text, syms)
				if len(syms) != n {
					changed = true
				}
			}
		}
	}
	var sb strings.Builder
	for _, d := range s.decls {
		sb.WriteString(d.Text)
		sb.WriteString("\n")
	}
	var lits, tags []string
	for _, t := range s.strLits {
		if syms[t.Op] {
			lits = append(lits, t.Op)
		}
	}
	sort.Strings(lits)
	if len(lits) > 1 {
		sb.WriteString("(assert (distinct " + strings.Join(lits, " ") + "))\n")
	}
	for _, t := range append([]string{"tag_nil"}, s.tagList...) {
		if syms[t] {
			tags = append(tags, t)
		}
	}
	if len(tags) > 1 {
		sb.WriteString("(assert (distinct " + strings.Join(tags, " ") + "))\n")
	}
	for i, a := range s.axioms {
		if included[i] {
			sb.WriteString("(assert " + a.Text + ") ; " + a.Name + "\n")
			if a.Lib {
				s.lastLib = append(s.lastLib, a.Name)
			}
		}
	}
	return sb.String()
}

// splitIff rewrites an assumed fact  forall V :: L <==> (D1 || ... || Dn)  (L an application, typically a spec
// predicate) into the equivalent facts
//     forall V :: L ==> (D1 || ... || Dn)              triggered on L
//     forall V' :: Dj' ==> L'                          one per disjunct, after the one-point rule: a conjunct v == e of Dj
//                                                      with v in V and e free of V is substituted and v is dropped
// so that every fact has a trigger that covers its own bound variables (a disjunct that does not mention all of V can
// never be a trigger of the combined formula, and E-matching then never uses the <== direction for it).
func splitIffFact(t *Term) []*Term {
	if t.Op != "forall" || len(t.Args) != 1 {
		return []*Term{t}
	}
	body := t.Args[0]
	if body.Op != "=" || len(body.Args) != 2 || body.Args[0].Sort != SBool {
		return []*Term{t}
	}
	L, R := body.Args[0], body.Args[1]
	if len(L.Bound) > 0 || !isTriggerHead(L.Op) || len(L.Args) == 0 {
		L, R = R, L
	}
	if len(L.Bound) > 0 || !isTriggerHead(L.Op) || len(L.Args) == 0 {
		return []*Term{t}
	}
	bound := map[string]bool{}
	for _, b := range t.Bound {
		bound[b.Name] = true
		if !mentions(L, b.Name) {
			return []*Term{t}
		}
	}
	var ds []*Term
	var flat func(x *Term)
	flat = func(x *Term) {
		if x.Op == "or" && len(x.Bound) == 0 {
			for _, a := range x.Args {
				flat(a)
			}
			return
		}
		ds = append(ds, x)
	}
	flat(R)
	var infer *FnCtx
	// the original fact is kept (its own triggers keep working); the per-disjunct implications are added
	out := []*Term{t}
	if len(ds) < 2 {
		return out
	}
	for _, d := range ds {
		// conjuncts
		var cs []*Term
		if d.Op == "and" && len(d.Bound) == 0 {
			cs = append(cs, d.Args...)
		} else {
			cs = []*Term{d}
		}
		m := map[string]*Term{}
		var rest []*Term
		for _, c := range cs {
			if c.Op == "=" && len(c.Args) == 2 {
				a, b := c.Args[0], c.Args[1]
				if len(b.Args) == 0 && bound[b.Op] {
					a, b = b, a
				}
				if len(a.Args) == 0 && bound[a.Op] && m[a.Op] == nil && !mentionsAny(b, bound) {
					m[a.Op] = b
					continue
				}
			}
			rest = append(rest, c)
		}
		var bs []Bound
		for _, b := range t.Bound {
			if m[b.Name] == nil {
				bs = append(bs, b)
			}
		}
		ant := subst(mkAnd(rest...), m)
		imp := mkImplies(ant, subst(L, m))
		if len(bs) == 0 {
			out = append(out, imp)
			continue
		}
		pats := infer.inferPatterns(bs, ant)
		if len(pats) == 0 {
			pats = infer.inferPatterns(bs, imp)
		}
		out = append(out, mkForall(bs, imp, pats...))
	}
	return out
}
