package main

import (
	"bufio"
	"crypto/sha256"
	"encoding/json"
	"flag"
	"fmt"
	"os"
	"path/filepath"
	"sort"
	"strconv"
	"strings"
	"time"
)

// ---------------------------------------------------------------------------
// known findings and the lock list

type Finding struct {
	Property   string
	Obligation string
	Shape      string // spec expression over the function's parameters describing the known failing inputs
	What       string
	Fixed      bool
	Commit     string
}

func loadFindings(path string) ([]Finding, error) {
	f, err := os.Open(path)
	if err != nil {
		if os.IsNotExist(err) {
			return nil, nil
		}
		return nil, err
	}
	defer f.Close()
	var out []Finding
	sc := bufio.NewScanner(f)
	for sc.Scan() {
		line := strings.TrimSpace(sc.Text())
		if line == "" || strings.HasPrefix(line, "#") {
			continue
		}
		switch {
		case strings.HasPrefix(line, "finding:"):
			fd := Finding{}
			rest := strings.TrimSpace(line[len("finding:"):])
			rest = takeKV(rest, "property", &fd.Property)
			rest = takeKV(rest, "obligation", &fd.Obligation)
			rest = takeKV(rest, "shape", &fd.Shape)
			fd.What = strings.TrimSpace(rest)
			out = append(out, fd)
		case strings.HasPrefix(line, "fixed:"):
			fd := Finding{Fixed: true}
			rest := strings.TrimSpace(line[len("fixed:"):])
			rest = takeKV(rest, "property", &fd.Property)
			f := strings.Fields(rest)
			if len(f) > 0 {
				fd.Commit = f[0]
				fd.What = strings.TrimSpace(strings.TrimPrefix(rest, f[0]))
			}
			out = append(out, fd)
		}
	}
	return out, nil
}

// takeKV consumes `key=value` or `key="value with spaces"` from the front of s.
func takeKV(s, key string, into *string) string {
	s = strings.TrimSpace(s)
	if !strings.HasPrefix(s, key+"=") {
		return s
	}
	s = s[len(key)+1:]
	if strings.HasPrefix(s, `"`) {
		if j := strings.Index(s[1:], `"`); j >= 0 {
			*into = s[1 : 1+j]
			return strings.TrimSpace(s[j+2:])
		}
	}
	j := strings.IndexAny(s, " \t")
	if j < 0 {
		*into = s
		return ""
	}
	*into = s[:j]
	return strings.TrimSpace(s[j:])
}

func loadLock(path string) map[string]bool {
	out := map[string]bool{}
	data, err := os.ReadFile(path)
	if err != nil {
		return out
	}
	for _, l := range strings.Split(string(data), "\n") {
		l = strings.TrimSpace(l)
		if l == "" || strings.HasPrefix(l, "#") {
			continue
		}
		out[l] = true
	}
	return out
}

// lockFor restricts the lock list to one property. A property without entries has no lock: every failing obligation
// is a violation. Entries: "<PROP> <obligation>" or "<PROP> func <function key>" (every obligation of that function,
// including ones that did not exist when the lock was written, is claimed).
func lockFor(lock map[string]bool, prop string) map[string]bool {
	out := map[string]bool{}
	for l := range lock {
		if strings.HasPrefix(l, prop+" ") {
			out[l] = true
		}
	}
	return out
}

func inLock(lock map[string]bool, prop string, g *OblGroup) bool {
	return lock[prop+" "+g.Name] || (g.Func != "" && lock[prop+" func "+g.Func])
}

// ---------------------------------------------------------------------------
// check

type OblGroup struct {
	Name      string
	Func      string
	Kind      string
	Detail    string
	Instances []*oblInst
	Status    string // proved, refuted, failed-no-model, cover-ok, cover-failed, known-finding
	Solver    string
	Seconds   float64
	Finding   *Finding
}

type oblInst struct {
	obl  *Obligation
	text string
	job  *solveJob
	alt  *solveJob // re-query with the known finding's shape excluded
	rep  *FuncReport
}

type Extra struct {
	// additional obligations produced by property-specific generators (regular-language equivalence,
	// type-structure checks, evaluated tables). They enter the same pipeline as named obligations.
	Name   string
	Kind   string
	Detail string
	Text   string // SMT text (unsat = discharged); empty when Decided is set
	Decided bool
	OK      bool
	Output  string
}

type CheckResult struct {
	Property   string
	Groups     []*OblGroup
	Funcs      []string
	Outside    map[string]string
	Trusted    map[string]bool
	Assumed    map[string]bool
	Undecided  []string
	Violations []Violation
	Known      []string
	NoDec      []string
	Notes      []string
	Bounded    []string
}

type Violation struct {
	Obligation string
	Replay     string
	NoInput    bool
}

func cmdCheck(args []string) {
	fs := flag.NewFlagSet("check", flag.ExitOnError)
	tier := fs.String("tier", os.Getenv("VERIF_TIER"), "quick|thorough")
	timeout := fs.Int("timeout", 0, "per-query timeout in seconds (default 10 quick, 60 thorough)")
	writeLock := fs.Bool("write-lock", false, "print the lock lines of all discharged obligations (maintenance; never used by registered checks)")
	keep := fs.String("dump", "", "directory to keep SMT files in")
	// allow "check C16 --tier quick" as well as "check --tier quick C16"
	var flags, pos []string
	for i := 0; i < len(args); i++ {
		if strings.HasPrefix(args[i], "-") {
			flags = append(flags, args[i])
			if !strings.Contains(args[i], "=") && i+1 < len(args) && args[i] != "--write-lock" && args[i] != "-write-lock" {
				flags = append(flags, args[i+1])
				i++
			}
		} else {
			pos = append(pos, args[i])
		}
	}
	fs.Parse(append(flags, pos...))
	if fs.NArg() != 1 {
		fmt.Fprintln(os.Stderr, "usage: gvc check <property> [--tier quick|thorough]")
		os.Exit(2)
	}
	prop := fs.Arg(0)
	if *tier == "" {
		*tier = "quick"
	}
	if *timeout == 0 {
		*timeout = 10
		if *tier == "thorough" {
			*timeout = 60
		}
	}
	seed, _ := strconv.Atoi(os.Getenv("VERIF_SEED"))
	t0 := time.Now()
	vdir := verifDir()
	eng, err := loadEngine(repoDir(), filepath.Join(vdir, "contracts", "lib"))
	if err != nil {
		// the tree does not load (does not compile / contract file broken): nothing can be decided
		fmt.Printf("UNDECIDED property=%s reason=load-failed: %v\n", prop, err)
		writeEvidence(vdir, prop, *tier, seed, nil, time.Since(t0).Seconds(), fmt.Sprintf("load failed: %v", err))
		os.Exit(0)
	}
	findings, _ := loadFindings(filepath.Join(vdir, "known_findings.txt"))
	lock := lockFor(loadLock(filepath.Join(vdir, "obligations.lock")), prop)
	res := runProperty(eng, prop, *tier, *timeout, findings, lock, *keep, vdir)
	wall := time.Since(t0).Seconds()
	if *writeLock {
		bad := map[string]bool{}
		for _, g := range res.Groups {
			if !(g.Status == "proved" || g.Status == "cover-ok") {
				bad[g.Func] = true
			}
		}
		for _, fn := range res.Funcs {
			if !bad[fn] {
				fmt.Printf("%s func %s\n", prop, fn)
			}
		}
		for _, g := range res.Groups {
			if (g.Status == "proved" || g.Status == "cover-ok") && (bad[g.Func] || g.Func == "") {
				fmt.Printf("%s %s\n", prop, g.Name)
			}
		}
		return
	}
	writeEvidence(vdir, prop, *tier, seed, res, wall, "")
	// report
	proved, total := 0, 0
	for _, g := range res.Groups {
		total++
		if g.Status == "proved" || g.Status == "cover-ok" || g.Status == "known-finding" {
			proved++
		}
	}
	for _, k := range res.Known {
		fmt.Println(k)
	}
	for _, u := range res.Undecided {
		fmt.Printf("UNDECIDED property=%s %s\n", prop, u)
	}
	fmt.Printf("property %s: %d/%d obligation groups discharged, %d functions under contract, %.1fs\n", prop, proved, total, len(res.Funcs), wall)
	if len(res.Violations) > 0 {
		for _, v := range res.Violations {
			if v.NoInput {
				fmt.Printf("VIOLATION property=%s replay=%s no-failing-input-found\n", prop, v.Replay)
			} else {
				fmt.Printf("VIOLATION property=%s replay=%s\n", prop, v.Replay)
			}
		}
		os.Exit(1)
	}
}

func onlySafety(ct *Contract) bool {
	for _, p := range ct.Props {
		if p != "C10" {
			return false
		}
	}
	return true
}

func runProperty(eng *Engine, prop, tier string, timeout int, findings []Finding, lock map[string]bool, keep, vdir string) *CheckResult {
	res := &CheckResult{Property: prop, Outside: map[string]string{}, Trusted: map[string]bool{}, Assumed: map[string]bool{}}
	// functions under contract for this property
	var keys []string
	for k, ct := range eng.contracts {
		for _, p := range ct.Props {
			if p == prop {
				keys = append(keys, k)
			}
		}
	}
	sort.Strings(keys)
	sweepOnly := map[string]bool{}
	if prop == "C10" || prop == "C11" {
		// C11 (shared-state half): the same sweep, counting only the frame:global obligations
		// totality: every function of the analyzers, with its contract if it has one, zero-annotation otherwise;
		// only the no-panic obligations (safe:*, implicit non-nil preconditions at calls) are counted here
		have := map[string]bool{}
		for _, k := range keys {
			have[k] = true
		}
		for k, fi := range eng.funcs {
			if have[k] || strings.Contains(fi.Pkg.PkgPath, "/testutil") || strings.Contains(fi.Pkg.PkgPath, "/cmd/") {
				continue
			}
			keys = append(keys, k)
			sweepOnly[k] = true
		}
		sort.Strings(keys)
	}
	var insts []*oblInst
	var reports []*FuncReport
	for _, k := range keys {
		fi := eng.funcs[k]
		if fi == nil {
			res.Undecided = append(res.Undecided, fmt.Sprintf("obligation=%s reason=contract-does-not-bind (function not found)", shortFuncKey(k)))
			continue
		}
		if ct := eng.contracts[k]; ct != nil && ct.Trusted {
			res.Trusted["assumed contract (body not verified): "+shortFuncKey(k)] = true
			continue
		}
		rep := eng.verifyFunc(fi, false)
		if rep.Err != "" && prop == "C11" && strings.Contains(rep.Err, ": spec: ") {
			// the function's contract no longer binds (e.g. a field it names was removed): the shared-state sweep does
			// not need the contract - fall back to the zero-annotation form for this function (not for C10: without the
			// loop invariants of the contract the safety obligations would fail for no reason)
			if rep2 := eng.verifyFuncBare(fi); rep2.Err == "" {
				res.Notes = append(res.Notes, shortFuncKey(k)+": contract does not bind ("+truncate(rep.Err, 120)+"); swept without it")
				rep = rep2
			}
		}
		reports = append(reports, rep)
		if rep.Err != "" {
			res.Outside[shortFuncKey(k)] = rep.Err
			res.Undecided = append(res.Undecided, fmt.Sprintf("obligation=%s/* reason=%s", shortFuncKey(k), rep.Err))
			continue
		}
		res.Funcs = append(res.Funcs, shortFuncKey(k))
		for i, o := range rep.Obls {
			// C11: for the swept functions only the shared-state and map-order obligations; for the functions tagged C11
			// (the containers whose answers must not depend on insertion order, the configuration singleton) the whole
			// contract
			if prop == "C11" && sweepOnly[k] && o.Kind != "frame:global" && o.Kind != "frame:alias" && o.Kind != "order:maprange" && !o.Cover {
				continue
			}
			// C10: the no-panic obligations, and the preconditions of callees (a callee is panic-free only under its precondition)
			if prop == "C10" && !(strings.HasPrefix(o.Kind, "safe") || o.Kind == "dec" || o.Kind == "pre" || o.Cover) {
				continue
			}
			insts = append(insts, &oblInst{obl: o, text: rep.Texts[i], rep: rep})
		}
		for _, u := range rep.Unbound {
			res.Undecided = append(res.Undecided, fmt.Sprintf("obligation=%s/at-call:%s reason=the contract has clauses for this call site but the function has no such call (the call was moved or removed): they are not decided", shortFuncKey(k), u))
		}
		for _, t := range rep.Trusted {
			res.Trusted[t] = true
		}
		for _, t := range rep.Assumed {
			res.Assumed[t] = true
		}
		for _, n := range rep.NoDec {
			res.NoDec = append(res.NoDec, fmt.Sprintf("%s loop %d", shortFuncKey(k), n))
		}
	}
	// lemmas
	for _, ax := range eng.axioms {
		if !ax.Lemma {
			continue
		}
		has := false
		for _, p := range ax.Props {
			if p == prop {
				has = true
			}
		}
		if !has {
			continue
		}
		o, text, err := eng.lemmaObligation(ax)
		if err != nil {
			res.Undecided = append(res.Undecided, fmt.Sprintf("obligation=lemma/%s reason=%v", ax.Name, err))
			continue
		}
		insts = append(insts, &oblInst{obl: o, text: text})
	}
	// property-specific generators
	extras, bounded, notes := propertyExtras(eng, prop, tier, vdir)
	res.Bounded = bounded
	res.Notes = notes
	for _, rep := range reports {
		for _, d := range rep.Dropped {
			res.Notes = append(res.Notes, fmt.Sprintf("%s: loop clause at %s no longer binds to the code (loops restructured) and was dropped for this run", shortFuncKey(rep.Key), d))
		}
	}
	// known-finding shapes: alternative queries
	byName := map[string][]*oblInst{}
	for _, in := range insts {
		byName[in.obl.Name] = append(byName[in.obl.Name], in)
	}
	var jobs []*solveJob
	for _, in := range insts {
		in.job = &solveJob{name: in.obl.Name, text: in.text, cover: in.obl.Cover}
		jobs = append(jobs, in.job)
	}
	for _, fd := range findings {
		if fd.Fixed || fd.Property != prop || fd.Shape == "" {
			continue
		}
		for _, in := range byName[fd.Obligation] {
			if in.rep == nil {
				continue
			}
			alt, err := in.rep.Ctx.renderExcluding(in.obl, fd.Shape)
			if err != nil {
				res.Undecided = append(res.Undecided, fmt.Sprintf("obligation=%s reason=known-finding shape does not evaluate: %v", fd.Obligation, err))
				continue
			}
			in.alt = &solveJob{name: in.obl.Name + "~excl", text: alt}
			jobs = append(jobs, in.alt)
		}
	}
	var extraJobs []*solveJob
	for _, ex := range extras {
		if !ex.Decided {
			j := &solveJob{name: ex.Name, text: ex.Text}
			extraJobs = append(extraJobs, j)
			jobs = append(jobs, j)
		} else {
			extraJobs = append(extraJobs, nil)
		}
	}
	tmp, _ := os.MkdirTemp("", "gvc-"+prop+"-")
	defer os.RemoveAll(tmp)
	if keep != "" {
		os.MkdirAll(keep, 0o755)
		for i, j := range jobs {
			os.WriteFile(filepath.Join(keep, fmt.Sprintf("%04d_%s.smt2", i, sanitize(j.name))), []byte(j.text), 0o644)
		}
	}
	solveAll(tmp, jobs, tier, timeout, 16)
	// second chance: an undischarged query is retried once with every back end and a longer time limit before
	// it is reported (solver timing differs between machines and loads; a genuinely broken obligation stays broken)
	var retry []*solveJob
	for _, j := range jobs {
		if !j.cover && j.res.Status != "unsat" && j.res.Status != "sat" {
			retry = append(retry, j)
		}
	}
	if len(retry) > 0 && len(retry) <= 6 {
		var again []*solveJob
		for _, j := range retry {
			again = append(again, &solveJob{name: j.name, text: j.text})
		}
		solveAll(tmp, again, "quick", timeout*3, 8)
		for i, j := range retry {
			if again[i].res.Status == "unsat" || again[i].res.Status == "sat" {
				first := j.res.Tried
				j.res = again[i].res
				j.res.Tried = append(append([]string{"first-pass:"}, first...), append([]string{"retry:"}, again[i].res.Tried...)...)
				res.Notes = append(res.Notes, "retried with longer time limit: "+j.name+" -> "+j.res.Status)
			}
		}
	}
	// group
	groups := map[string]*OblGroup{}
	var order []string
	for _, in := range insts {
		g := groups[in.obl.Name]
		if g == nil {
			g = &OblGroup{Name: in.obl.Name, Func: shortFuncKey(in.obl.Func), Kind: in.obl.Kind, Detail: in.obl.Detail}
			groups[in.obl.Name] = g
			order = append(order, in.obl.Name)
		}
		g.Instances = append(g.Instances, in)
	}
	replayDir := filepath.Join(vdir, "replays", prop)
	if d := os.Getenv("GVC_REPLAY_DIR"); d != "" {
		replayDir = filepath.Join(d, prop)
	}
	for _, name := range order {
		g := groups[name]
		res.Groups = append(res.Groups, g)
		classify(eng, g, prop, findings, lock, replayDir, res, tier)
	}
	for i, ex := range extras {
		g := &OblGroup{Name: ex.Name, Kind: ex.Kind, Detail: ex.Detail}
		res.Groups = append(res.Groups, g)
		ok := ex.OK
		output := ex.Output
		var model map[string]string
		if !ex.Decided {
			r := extraJobs[i].res
			ok = r.Status == "unsat"
			g.Solver, g.Seconds = r.Solver, r.Seconds
			output = strings.Join(r.Tried, " ") + "\n" + r.Output
			model = r.Model
		} else {
			g.Solver = "structural"
		}
		if ok {
			g.Status = "proved"
			continue
		}
		g.Status = "refuted"
		path := writeReplay(replayDir, g.Name, map[string]interface{}{
			"property": prop, "obligation": g.Name, "kind": g.Kind, "clause": g.Detail, "verifier_output": output, "model": model,
			"replayed": false,
		})
		if len(lock) > 0 && !inLock(lock, prop, g) {
			res.Undecided = append(res.Undecided, fmt.Sprintf("obligation=%s reason=not discharged and not in obligations.lock", g.Name))
			continue
		}
		res.Violations = append(res.Violations, Violation{Obligation: g.Name, Replay: path, NoInput: true})
	}
	// obligations in the lock list that were not generated at all
	have := map[string]bool{}
	for _, g := range res.Groups {
		have[g.Name] = true
	}
	var missing []string
	for l := range lock {
		f := strings.Fields(l)
		if len(f) == 2 && f[0] == prop && !have[f[1]] {
			missing = append(missing, f[1])
		}
	}
	sort.Strings(missing)
	for _, m := range missing {
		res.Undecided = append(res.Undecided, fmt.Sprintf("obligation=%s reason=locked obligation was not generated from the current source (contract no longer binds)", m))
	}
	return res
}

// classify decides the status of one obligation group and, on failure, replays and reports it.
func classify(eng *Engine, g *OblGroup, prop string, findings []Finding, lock map[string]bool, replayDir string, res *CheckResult, tier string) {
	allOK := true
	var failing []*oblInst
	for _, in := range g.Instances {
		r := in.job.res
		g.Seconds += r.Seconds
		if g.Solver == "" {
			g.Solver = r.Solver
		}
		ok := r.Status == "unsat"
		if in.obl.Cover {
			// a contradictory precondition shows up as unsat; sat or unknown (quantifiers) both mean "not refuted"
			ok = r.Status != "unsat" && r.Status != "error"
		}
		if !ok {
			allOK = false
			failing = append(failing, in)
		}
	}
	if allOK {
		g.Status = "proved"
		if g.Instances[0].obl.Cover {
			g.Status = "cover-ok"
		}
		return
	}
	if g.Instances[0].obl.Cover && (prop == "C10" || prop == "C11") && g.Kind != "cover:pre" {
		// in the sweeps a contradiction among the assumptions of a function means that its loop invariants no longer fit
		// the (changed) code: the safety / shared-state obligations of that function are unreliable - undecided, and the
		// mismatch itself is reported by the properties that own the invariants
		g.Status = "undecided"
		res.Undecided = append(res.Undecided, fmt.Sprintf("obligation=%s reason=the assumptions made in %s are contradictory (its invariants do not fit the code): its sweep obligations are not decided", g.Name, g.Func))
		return
	}
	if g.Instances[0].obl.Cover {
		g.Status = "cover-failed"
		path := writeReplay(replayDir, g.Name, map[string]interface{}{
			"property": prop, "obligation": g.Name, "kind": "cover", "clause": g.Detail,
			"verifier_output": failing[0].job.res.Output, "note": "vacuity guard: the precondition of the function is unsatisfiable or could not be shown satisfiable",
		})
		res.Violations = append(res.Violations, Violation{Obligation: g.Name, Replay: path, NoInput: true})
		return
	}
	// known finding?
	for i := range findings {
		fd := &findings[i]
		if fd.Fixed || fd.Property != prop || fd.Obligation != g.Name {
			continue
		}
		onlyKnown := true
		for _, in := range failing {
			if in.alt == nil || in.alt.res.Status != "unsat" {
				onlyKnown = false
			}
		}
		if onlyKnown {
			g.Status = "known-finding"
			g.Finding = fd
			res.Known = append(res.Known, fmt.Sprintf("KNOWN-FINDING: property=%s %s [%s outside shape %q discharged]", prop, fd.What, g.Name, fd.Shape))
			return
		}
	}
	// the function was verified through a helper without contract that could not be handled exactly: undecided
	// (only when the function lost a loop against the recorded tree, i.e. the helper may hold code that was extracted from
	// it together with the loop its invariants spoke about, or when the helper could not be inlined at all; a helper with a
	// loop that was *added* next to the function's unchanged loops is new code: its result is unconstrained, which is a
	// sound over-approximation, and what fails then fails for the added behaviour)
	if rep := failing[0].rep; rep != nil && impreciseUndecided(rep) && !g.Instances[0].obl.Cover && !strings.HasPrefix(g.Kind, "frame:") && g.Kind != "order:maprange" {
		g.Status = "undecided"
		res.Undecided = append(res.Undecided, fmt.Sprintf("obligation=%s reason=not discharged (%s); the function calls %s - it needs a contract before this can be decided", g.Name, failing[0].job.res.Status, strings.Join(rep.Imprecise, "; ")))
		return
	}
	// a failing obligation that is not in the lock list never discharged on the unchanged tree: undecided
	if len(lock) > 0 && !inLock(lock, prop, g) {
		g.Status = "undecided"
		res.Undecided = append(res.Undecided, fmt.Sprintf("obligation=%s reason=not discharged (%s) and not in obligations.lock", g.Name, failing[0].job.res.Status))
		return
	}
	// replay the first instance that has a model
	g.Status = "failed-no-model"
	var out string
	for _, in := range failing {
		out += fmt.Sprintf("instance %d: %s\n%s\n", in.obl.Inst, strings.Join(in.job.res.Tried, " "), truncate(in.job.res.Output, 1500))
	}
	for _, in := range failing {
		r := in.job.res
		if len(r.Model) == 0 || in.rep == nil {
			continue
		}
		rp := eng.replayFunction(in, tier)
		if rp == nil {
			continue
		}
		rp["property"] = prop
		rp["obligation"] = g.Name
		rp["clause"] = g.Detail
		rp["verifier_output"] = out
		if confirmed, _ := rp["confirmed"].(bool); confirmed {
			g.Status = "refuted"
			path := writeReplay(replayDir, g.Name, rp)
			res.Violations = append(res.Violations, Violation{Obligation: g.Name, Replay: path})
			return
		}
		if attempted, _ := rp["attempted"].(bool); attempted {
			// the model does not reproduce on the real code: spurious (over-abstraction) for this instance
			out += fmt.Sprintf("replay of instance %d did not reproduce: %v\n", in.obl.Inst, rp["observed"])
		} else {
			out += fmt.Sprintf("replay of instance %d not possible: %v\n", in.obl.Inst, rp["note"])
		}
	}
	path := writeReplay(replayDir, g.Name, map[string]interface{}{
		"property": prop, "obligation": g.Name, "kind": g.Kind, "clause": g.Detail, "verifier_output": out, "replayed": false,
		"note": "obligation discharged on the unchanged tree (obligations.lock) and fails now; no concrete failing input could be replayed",
	})
	res.Violations = append(res.Violations, Violation{Obligation: g.Name, Replay: path, NoInput: true})
}

func writeReplay(dir, name string, data map[string]interface{}) string {
	os.MkdirAll(dir, 0o755)
	path := filepath.Join(dir, sanitize(strings.ReplaceAll(name, "/", "__"))+".json")
	b, _ := json.MarshalIndent(data, "", " ")
	os.WriteFile(path, b, 0o644)
	return path
}

// renderExcluding renders the obligation with the negation of a known-finding shape as an extra assumption.
func (c *FnCtx) renderExcluding(o *Obligation, shape string) (text string, err error) {
	defer func() {
		if r := recover(); r != nil {
			if u, ok := r.(unsupported); ok {
				err = fmt.Errorf("%s", u.msg)
				return
			}
			panic(r)
		}
	}()
	e, perr := parseSpecExpr(shape, "known_findings.txt")
	if perr != nil {
		return "", perr
	}
	env := c.entryEnv(c.pre)
	if c.contract != nil {
		c.applyLets(c.pre, c.contract, env, nil)
	}
	t := c.specEvalAt(c.pre.clone(), e, env, nil, c.fi.Decl)
	o2 := *o
	o2.Assume = append(append([]*Term(nil), o.Assume...), mkNot(t))
	return c.render(&o2), nil
}

// lemmaObligation: a closed formula over spec functions, proved from the definitional axioms alone.
func (e *Engine) lemmaObligation(ax *AxiomSpec) (o *Obligation, text string, err error) {
	// evaluate in a context of any function of the package (only the type environment matters)
	var fi *FuncInfo
	var keys []string
	for k := range e.funcs {
		keys = append(keys, k)
	}
	sort.Strings(keys)
	for _, k := range keys {
		if e.funcs[k].Pkg.PkgPath == ax.Pkg {
			fi = e.funcs[k]
			break
		}
	}
	if fi == nil {
		return nil, "", fmt.Errorf("no function context for package %s", ax.Pkg)
	}
	c := e.newFnCtx(fi, false)
	defer func() {
		if r := recover(); r != nil {
			if u, ok := r.(unsupported); ok {
				err = fmt.Errorf("%s", u.msg)
				return
			}
			panic(r)
		}
	}()
	st := c.initialState()
	c.pre = st
	g := c.specEval(st, ax.Expr, map[string]*Term{}, nil)
	o = &Obligation{Func: "lemma", Kind: "lemma", Detail: ax.Expr.String(), Goal: g, Assume: st.pc, Name: "lemma/" + ax.Name, Inst: 1}
	return o, c.render(o), nil
}

// ---------------------------------------------------------------------------
// evidence

func writeEvidence(vdir, prop, tier string, seed int, res *CheckResult, wall float64, failure string) {
	evDir := filepath.Join(vdir, "evidence")
	if d := os.Getenv("GVC_EVIDENCE_DIR"); d != "" {
		evDir = d
	}
	os.MkdirAll(evDir, 0o755)
	path := filepath.Join(evDir, prop+".json")
	ev := map[string]interface{}{
		"property_id": prop, "tier": tier, "seed": seed, "wall_s": wall,
	}
	cov := map[string]interface{}{
		"checker_cmd": fmt.Sprintf("/verif/bin/gvc check %s --tier %s  (VC generation from /repo's working tree; back ends z3-new 5.1.0 [E-matching and default], cvc5 1.0.3, z3 4.8.12)", prop, tier),
	}
	if res == nil {
		ev["level"] = "other"
		cov["explanation"] = "no obligations could be generated: " + failure
		ev["coverage"] = cov
		ev["violations"] = 0
		b, _ := json.MarshalIndent(ev, "", " ")
		os.WriteFile(path, b, 0o644)
		return
	}
	total, discharged, insts, covers := 0, 0, 0, 0
	var per []map[string]interface{}
	var samples []interface{}
	var solverTime float64
	backends := map[string]int{}
	var unclaimed []string
	for _, g := range res.Groups {
		if g.Status == "undecided" {
			// never discharged on the unchanged tree (not in obligations.lock): not part of the claim
			unclaimed = append(unclaimed, g.Name)
			continue
		}
		total++
		ok := g.Status == "proved" || g.Status == "cover-ok"
		if ok {
			discharged++
		}
		if g.Status == "cover-ok" {
			covers++
		}
		insts += len(g.Instances)
		solverTime += g.Seconds
		backends[g.Solver]++
		m := map[string]interface{}{"obligation": g.Name, "status": g.Status, "back_end": g.Solver, "solver_s": round3(g.Seconds), "instances": len(g.Instances), "clause": truncate(g.Detail, 200)}
		if g.Finding != nil {
			m["status"] = "discharged-modulo-finding"
			m["excluded_shape"] = g.Finding.Shape
		}
		if len(g.Instances) > 0 {
			h := sha256.Sum256([]byte(g.Instances[0].text))
			m["smt_sha256"] = fmt.Sprintf("%x", h[:8])
		}
		per = append(per, m)
	}
	// one full obligation text as a sample, plus names
	for _, g := range res.Groups {
		if len(g.Instances) > 0 && g.Kind == "post" {
			samples = append(samples, map[string]interface{}{"obligation": g.Name, "clause": g.Detail, "smt2": truncate(g.Instances[0].text, 6000)})
			break
		}
	}
	for i, g := range res.Groups {
		if i >= 12 {
			break
		}
		samples = append(samples, map[string]interface{}{"obligation": g.Name, "clause": truncate(g.Detail, 160), "status": g.Status})
	}
	if len(samples) == 0 {
		samples = append(samples, "no obligations generated")
	}
	modulo := 0
	for _, g := range res.Groups {
		if g.Status == "known-finding" {
			modulo++
		}
	}
	level := "proof"
	undecided := 0
	for _, u := range res.Undecided {
		if !strings.Contains(u, "not in obligations.lock") {
			undecided++
		}
	}
	cov["unclaimed_obligations"] = unclaimed
	if len(unclaimed) > 0 {
		cov["unclaimed_note"] = "obligations of functions whose contracts are not written yet; they did not discharge when obligations.lock was written, are not counted under `obligations`, and a failure of one of them is reported as UNDECIDED, never as a violation"
	}
	if total == 0 || discharged+modulo < total || undecided > 0 {
		level = "other"
		cov["explanation"] = fmt.Sprintf("%d of %d obligation groups discharged (%d only outside listed known-finding shapes); %d undecided items: this run is not a complete proof", discharged, total, modulo, len(res.Undecided))
	}
	if prop == "C11" && level == "proof" {
		// the obligations decide only the shared-state half of the property (see MANIFEST level text)
		level = "other"
		cov["explanation"] = "all generated obligations discharged; they cover only writes to package-level state and map-order dependence, not schedules or races"
	}
	if prop == "C05" && level == "proof" {
		cov["explanation"] = "all generated obligations discharged; the specification is go/types itself (types.Identical, NewMethodSet, Func.Id are assumed to mean what their documentation says); the composition of the proved contracts to 'IMPL03 iff not types.Implements' is argued in MANIFEST level_note, not an SMT obligation"
	}
	ev["level"] = level
	cov["obligations"] = total
	cov["discharged"] = discharged
	cov["discharged_modulo_known_findings"] = modulo
	cov["obligation_instances"] = insts
	cov["cover_queries_sat"] = covers
	cov["functions_under_contract"] = res.Funcs
	cov["outside_subset"] = res.Outside
	cov["per_obligation"] = per
	cov["samples"] = samples
	cov["solver_time_s"] = round3(solverTime)
	cov["back_ends"] = backends
	cov["undecided"] = res.Undecided
	cov["known_findings_seen"] = res.Known
	cov["loops_without_termination_measure"] = res.NoDec
	cov["bounded_parts"] = res.Bounded
	cov["notes"] = res.Notes
	var tb []string
	for t := range res.Trusted {
		tb = append(tb, t)
	}
	sort.Strings(tb)
	tb = append(tb, "gvc itself: the translation of the Go subset to SMT-LIB (DESIGN.md section 3), the SMT solvers")
	cov["trusted_base"] = tb
	ev["coverage"] = cov
	as := []string{
		"machine integers treated as mathematical integers",
		"slice capacity and backing-array aliasing not modelled (functions that store into slice elements are outside the subset)",
		"strings are an uninterpreted sort with length/byte/concat/slice functions axiomatised (no SMT string theory)",
	}
	for t := range res.Assumed {
		as = append(as, t)
	}
	sort.Strings(as[3:])
	ev["assumptions"] = as
	ev["violations"] = len(res.Violations)
	b, _ := json.MarshalIndent(ev, "", " ")
	os.WriteFile(path, b, 0o644)
}

func round3(f float64) float64 { return float64(int(f*1000+0.5)) / 1000 }


// impreciseUndecided: failing obligations of a function that was verified through a contract-less helper are undecided if
// the helper could not be inlined, or if the function lost a loop (extraction of a loop into the helper).
func impreciseUndecided(rep *FuncReport) bool {
	if len(rep.Imprecise) == 0 {
		return false
	}
	if rep.LoopsLost {
		return true
	}
	for _, w := range rep.Imprecise {
		if !strings.Contains(w, "inlined, its loops havocked") {
			return true
		}
	}
	return false
}
