package main

import (
	"fmt"
	"go/ast"
	"go/token"
	"go/types"
	"sort"
	"strings"
)

type State struct {
	vars   map[types.Object]*Term
	heap   map[string]*Term
	pc     []*Term
	guards []*Term
	ghost  map[string]*Term
	alloc  *Term
	ret    []*Term // return values (flow == Return)
	calls  map[string][]*Term // results of the call sites executed on this path, by call-site name "pkg.F#k" ($ret, $called)
	noAssume int     // >0 while a specification expression is evaluated: reading must not add facts
	tmpl   *tmplInfo // non-nil: template state used to define a spec function (heap reads become parameters)
}

type tmplInfo struct {
	names []string
	vars  map[string]*Term
}

func (st *State) clone() *State {
	n := &State{vars: make(map[types.Object]*Term, len(st.vars)), heap: make(map[string]*Term, len(st.heap)), ghost: make(map[string]*Term, len(st.ghost)), alloc: st.alloc}
	for k, v := range st.vars {
		n.vars[k] = v
	}
	for k, v := range st.heap {
		n.heap[k] = v
	}
	for k, v := range st.ghost {
		n.ghost[k] = v
	}
	if len(st.calls) > 0 {
		n.calls = make(map[string][]*Term, len(st.calls))
		for k, v := range st.calls {
			n.calls[k] = v
		}
	}
	n.pc = append([]*Term(nil), st.pc...)
	n.guards = append([]*Term(nil), st.guards...)
	return n
}

func (st *State) guard() *Term { return mkAnd(st.guards...) }

func (st *State) assume(t *Term) {
	if t == nil || isLit(t, "true") || st.noAssume > 0 {
		return
	}
	st.pc = append(st.pc, mkImplies(st.guard(), t))
}

type Flow int

const (
	FNormal Flow = iota
	FBreak
	FContinue
	FReturn
)

type Out struct {
	st    *State
	flow  Flow
	label string
}

type Obligation struct {
	Func   string
	Kind   string // post, pre, inv-init, inv-step, safe:nil, ...
	Site   token.Pos
	Detail string // clause text or expression text
	Sub    string // callee / clause ordinal
	Assume []*Term
	Goal   *Term
	Name   string // assigned after execution: kind#ordinal
	Inst   int
	Cover  bool // expected sat
}

// FnCtx is the verification context of one function.
type FnCtx struct {
	eng      *Engine
	smt      *SMT
	ts       *TypeSys
	fi       *FuncInfo
	info     *types.Info
	pkg      *types.Package
	contract *Contract
	obls     []*Obligation
	loopOrd  map[ast.Node]int
	callOrd  map[ast.Node]string
	inAxiom  bool // a library axiom is being translated (quantifiers over concrete pointer types are relativised)
	boxed    map[types.Object]bool
	pre      *State // state at function entry (for old())
	results  []*types.Var
	resNames []string
	outside  []string // reasons the function is outside the subset
	env      map[string]*Term // spec-level names (params by name etc.)
	closures map[string]*Closure
	frames   []*frame // closure execution frames
	sweep    bool     // zero-annotation mode: no post/inv obligations
	specDepth int
	specDefs map[string]*specDef
	trustedUsed map[string]bool
	assumptionsUsed map[string]bool
	quantN int
	letDefs []LetDef
	curEntry *State
	lastFrameNames []string
	loopGhost map[string]*Term
	qdepth int
	log *writeLog
	dry int
	allowGlobalWrite bool
	resultStack [][]*types.Var
	noDecreases map[int]bool
	mapRangeLoops int
	inlineStack   []string
	imprecise     []string
	labels        map[ast.Stmt]string // labelled loops / switches
	cfCount       int  // slices.ContainsFunc predicates defined so far
	loopsLost     bool // the function has fewer loops than loops.lock records for it
	brokenContracts map[string]bool
	hintMode      int // >0 while a loop invariant (a proof hint, not a claim) is evaluated
	loopInitVar   map[token.Pos]*types.Var
	sweepStrictClosures bool
	keepRet       bool
	pathsToReturn int
	yieldElem string
	yieldPair bool
}

type frame struct {
	kind     string // "producer", "inline"
	yielded  string // ghost key
}

type Closure struct {
	Lit *ast.FuncLit
	Fn  *ast.FuncDecl // for method values / named functions (unused)
}

type specDef struct {
	heapNames []string
	heapSorts []string
	name      string
	resSort   string
	resType   types.Type
}

type unsupported struct{ msg string }

func (c *FnCtx) unsupportedf(n ast.Node, format string, args ...interface{}) {
	pos := ""
	if n != nil {
		p := c.eng.fset.Position(n.Pos())
		pos = fmt.Sprintf("%s:%d: ", relPath(c.eng.repoDir, p.Filename), p.Line)
	}
	panic(unsupported{pos + fmt.Sprintf(format, args...)})
}

func (c *FnCtx) oblige(st *State, kind string, site ast.Node, sub, detail string, goal *Term) {
	if isLit(goal, "true") {
		return
	}
	// an equivalence (possibly under universal quantifiers) is proved as two implications: the two directions need
	// different instantiations and solvers are far more robust on them separately
	// P => (A and B)  and  forall x :: (A and B)  are split like conjunctions
	if goal.Op == "=>" && len(goal.Args) == 2 && goal.Args[1].Op == "and" && len(goal.Args[1].Args) > 1 {
		save := len(st.pc)
		for _, g := range goal.Args[1].Args {
			gi := mkImplies(goal.Args[0], g)
			c.oblige(st, kind, site, sub, detail, gi)
			st.pc = append(st.pc, gi)
		}
		st.pc = st.pc[:save]
		return
	}
	// a conjunction is proved conjunct by conjunct (each may use the ones before it)
	if goal.Op == "and" && len(goal.Args) > 1 {
		save := len(st.pc)
		for _, g := range goal.Args {
			c.oblige(st, kind, site, sub, detail, g)
			st.pc = append(st.pc, g)
		}
		st.pc = st.pc[:save]
		return
	}
	if a, b, ok := splitIff(goal); ok {
		for _, x := range []struct {
			g   *Term
			dir string
		}{{a, "==>"}, {b, "<=="}} {
			cases := []*Term{x.g} // splitOrAntecedent(x.g) would hide the other disjuncts' terms, which seed instantiations
			for k, g := range cases {
				d := detail + "   [direction " + x.dir + "]"
				if len(cases) > 1 {
					d = fmt.Sprintf("%s   [direction %s, case %d of %d]", detail, x.dir, k+1, len(cases))
				}
				c.oblige1(st, kind, site, sub, d, g)
			}
		}
		return
	}
	c.oblige1(st, kind, site, sub, detail, goal)
}

// splitOrAntecedent: forall xs :: (D1 or ... or Dn) => A   ~>   forall xs :: Dj => A  (j = 1..n)
func splitOrAntecedent(g *Term) []*Term {
	if g.Op == "forall" && len(g.Args) == 1 {
		inner := splitOrAntecedent(g.Args[0])
		if len(inner) < 2 {
			return []*Term{g}
		}
		var out []*Term
		for _, x := range inner {
			gx := *g
			gx.Args = []*Term{x}
			gx.Pats = nil
			out = append(out, &gx)
		}
		return out
	}
	if g.Op == "=>" && len(g.Args) == 2 {
		var ds []*Term
		var flat func(x *Term)
		flat = func(x *Term) {
			if x.Op == "or" && len(x.Bound) == 0 {
				for _, a := range x.Args {
					flat(a)
				}
				return
			}
			ds = append(ds, x)
		}
		flat(g.Args[0])
		if len(ds) < 2 {
			return []*Term{g}
		}
		var out []*Term
		for _, d := range ds {
			out = append(out, mkImplies(d, g.Args[1]))
		}
		return out
	}
	return []*Term{g}
}

// splitIff: forall xs :: (A = B)  ~>  forall xs :: A => B ,  forall xs :: B => A   (Bool-sorted A, B that are not literals)
func splitIff(g *Term) (*Term, *Term, bool) {
	if g.Op == "forall" && len(g.Args) == 1 {
		a, b, ok := splitIff(g.Args[0])
		if !ok {
			return nil, nil, false
		}
		ga, gb := *g, *g
		ga.Args = []*Term{a}
		gb.Args = []*Term{b}
		return &ga, &gb, true
	}
	if g.Op == "=" && len(g.Args) == 2 && g.Args[0].Sort == SBool && len(g.Args[0].Args) > 0 && len(g.Args[1].Args) > 0 {
		return mkImplies(g.Args[0], g.Args[1]), mkImplies(g.Args[1], g.Args[0]), true
	}
	return nil, nil, false
}

func (c *FnCtx) oblige1(st *State, kind string, site ast.Node, sub, detail string, goal *Term) {
	if isLit(goal, "true") {
		return
	}
	var pos token.Pos
	if site != nil {
		pos = site.Pos()
	}
	var assume []*Term
	for _, a := range st.pc {
		assume = append(assume, splitIffFact(a)...)
	}
	// A universally quantified goal is proved for fresh constants, and every assumed universal fact with the same
	// binder list (typically the same invariant in an earlier state, or the corresponding invariant of an inner or
	// outer loop) is instantiated at these constants: the principal instantiation of a step proof no longer depends
	// on trigger terms being present.
	if goal.Op == "forall" && len(goal.Args) == 1 && len(goal.Bound) > 0 {
		m := map[string]*Term{}
		for _, b := range goal.Bound {
			m[b.Name] = c.smt.freshConst("sk_"+strings.SplitN(b.Name, "!", 2)[0], b.Sort)
		}
		same := func(bs []Bound) bool {
			if len(bs) != len(goal.Bound) {
				return false
			}
			for i := range bs {
				if bs[i] != goal.Bound[i] {
					return false
				}
			}
			return true
		}
		var inst []*Term
		for _, a := range assume {
			if a.Op == "forall" && len(a.Args) == 1 && same(a.Bound) {
				inst = append(inst, subst(a.Args[0], m))
			}
		}
		assume = append(assume, inst...)
		goal = subst(goal.Args[0], m)
	}
	if g := st.guard(); !isLit(g, "true") {
		assume = append(assume, g)
	}
	c.obls = append(c.obls, &Obligation{Func: c.fi.Key, Kind: kind, Site: pos, Sub: sub, Detail: detail, Assume: assume, Goal: goal})
}

// nameObligations assigns stable names: kind[@sub]#ordinal where ordinal is the index of the
// syntactic site among the sites of that kind in source order.
func (c *FnCtx) nameObligations() {
	type key struct {
		kind, sub string
	}
	sites := map[key][]token.Pos{}
	seen := map[key]map[token.Pos]bool{}
	for _, o := range c.obls {
		k := key{o.Kind, o.Sub}
		if seen[k] == nil {
			seen[k] = map[token.Pos]bool{}
		}
		if !seen[k][o.Site] {
			seen[k][o.Site] = true
			sites[k] = append(sites[k], o.Site)
		}
	}
	for _, ps := range sites {
		sort.Slice(ps, func(i, j int) bool { return ps[i] < ps[j] })
	}
	inst := map[string]int{}
	for _, o := range c.obls {
		k := key{o.Kind, o.Sub}
		ord := 0
		for i, p := range sites[k] {
			if p == o.Site {
				ord = i + 1
			}
		}
		name := o.Kind
		if o.Sub != "" {
			name += "@" + o.Sub
		}
		if len(sites[k]) > 1 || strings.HasPrefix(o.Kind, "safe") {
			name += fmt.Sprintf("#%d", ord)
		}
		o.Name = shortFuncKey(c.fi.Key) + "/" + name
		inst[o.Name]++
		o.Inst = inst[o.Name]
	}
}

func shortFuncKey(k string) string {
	k = strings.TrimPrefix(k, repoPrefix+"/src/")
	k = strings.TrimPrefix(k, repoPrefix+"/")
	return k
}

// render produces the SMT-LIB text of an obligation (validity query: unsat = discharged).
func (c *FnCtx) render(o *Obligation) string {
	var sb strings.Builder
	sb.WriteString("; obligation " + o.Name + fmt.Sprintf(" (instance %d)\n", o.Inst))
	sb.WriteString("; " + strings.ReplaceAll(o.Detail, "\n", " ") + "\n")
	var body strings.Builder
	seenA := map[string]bool{}
	for _, a := range o.Assume {
		as := a.String()
		if seenA[as] {
			continue
		}
		seenA[as] = true
		body.WriteString("(assert " + as + ")\n")
	}
	if o.Cover {
		body.WriteString("(assert " + o.Goal.String() + ")\n")
	} else {
		body.WriteString("(assert (not " + o.Goal.String() + "))\n")
	}
	sb.WriteString(c.smt.preamble(body.String()))
	for _, n := range c.smt.lastLib {
		c.trustedUsed["axiom "+n] = true
	}
	sb.WriteString(body.String())
	sb.WriteString("(check-sat)\n")
	return sb.String()
}

// ---------------------------------------------------------------------------
// heap helpers

func (c *FnCtx) heapArr(st *State, name, valSort string) *Term {
	if t, ok := st.heap[name]; ok {
		return t
	}
	if st.tmpl != nil {
		v := leaf("h$"+sanitize(name), arraySort(SInt, valSort))
		st.tmpl.names = append(st.tmpl.names, name)
		st.tmpl.vars[name] = v
		st.heap[name] = v
		return v
	}
	// initial heap constant, shared by all states of this function
	cn := sanitize(name) + "!0"
	c.smt.declare(cn, fmt.Sprintf("(declare-const %s %s)", cn, arraySort(SInt, valSort)))
	t := leaf(cn, arraySort(SInt, valSort))
	c.nilMapEmpty(name, t, valSort)
	// the pre-state must see the same initial value
	if c.pre != nil {
		if _, ok := c.pre.heap[name]; !ok {
			c.pre.heap[name] = t
		}
	}
	st.heap[name] = t
	return t
}

func (c *FnCtx) heapRead(st *State, name, valSort string, ref *Term) *Term {
	return mkSelect(c.heapArr(st, name, valSort), ref)
}

func (c *FnCtx) heapWrite(st *State, name, valSort string, ref, val *Term) {
	arr := c.heapArr(st, name, valSort)
	if val.Sort != valSort {
		panic(fmt.Sprintf("heapWrite %s: sort %s vs %s", name, val.Sort, valSort))
	}
	if c.log != nil {
		c.log.heaps[name] = valSort
		c.log.refs[name] = append(c.log.refs[name], ref)
	}
	newArr := mkStore(arr, ref, val)
	if g := st.guard(); !isLit(g, "true") {
		newArr = mkIte(g, newArr, arr)
	}
	// name the new heap to keep terms small
	fc := c.smt.freshConst(name, arr.Sort)
	st.pc = append(st.pc, mkEq(fc, newArr))
	st.heap[name] = fc
}

func (c *FnCtx) heapHavoc(st *State, name, valSort string) {
	arr := c.heapArr(st, name, valSort)
	if c.log != nil {
		c.log.heaps[name] = valSort
		c.log.whole[name] = true
	}
	fc := c.smt.freshConst(name, arr.Sort)
	c.nilMapEmpty(name, fc, valSort)
	if g := st.guard(); !isLit(g, "true") {
		st.pc = append(st.pc, mkImplies(mkNot(g), mkEq(fc, arr)))
	}
	st.heap[name] = fc
}

// nilMapEmpty: in every version of a map-domain heap the nil map (reference 0) has no keys.
func (c *FnCtx) nilMapEmpty(name string, arr *Term, valSort string) {
	if !strings.HasPrefix(name, "MD_") {
		return
	}
	c.smt.axiom("nilmap:"+arr.Op, fmt.Sprintf("(= (select %s 0) ((as const %s) false))", arr.Op, valSort), false, arr.Op)
}

// global variables live in the heap map under "G:<pkg>.<name>" as plain values (not arrays).
func (c *FnCtx) globalRead(st *State, v *types.Var) *Term {
	name := "G:" + shortPkg(v.Pkg()) + "." + v.Name()
	if t, ok := st.heap[name]; ok {
		return t
	}
	if st.tmpl != nil {
		tv := leaf("h$"+sanitize(name), c.ts.sortOf(v.Type())).withGo(v.Type())
		st.tmpl.names = append(st.tmpl.names, name)
		st.tmpl.vars[name] = tv
		st.heap[name] = tv
		return tv
	}
	cn := sanitize(name) + "!0"
	srt := c.ts.sortOf(v.Type())
	c.smt.declare(cn, fmt.Sprintf("(declare-const %s %s)", cn, srt))
	t := leaf(cn, srt).withGo(v.Type())
	if c.pre != nil {
		if _, ok := c.pre.heap[name]; !ok {
			c.pre.heap[name] = t
		}
	}
	st.heap[name] = t
	c.groundFacts(v, t)
	return t
}

func (c *FnCtx) globalWrite(st *State, v *types.Var, val *Term) {
	name := "G:" + shortPkg(v.Pkg()) + "." + v.Name()
	old := c.globalRead(st, v)
	if g := st.guard(); !isLit(g, "true") {
		val = mkIte(g, val, old)
	}
	st.heap[name] = val.withGo(v.Type())
}

// alloc returns a fresh non-nil reference.
func (c *FnCtx) allocRef(st *State, hint string) *Term {
	r := c.smt.freshConst("ref_"+hint, SInt)
	st.pc = append(st.pc, mkLt(st.alloc, r))
	na := c.smt.freshConst("alloc", SInt)
	st.pc = append(st.pc, mkLe(r, na))
	st.alloc = na
	return r
}

func fieldHeapName(structName, field string) string { return "H_" + structName + "_" + field }

// structName returns the canonical sort name for a repo struct type (also used for heap names).
func (c *FnCtx) structName(t types.Type) string {
	return c.ts.sortOf(deref(t))
}

func deref(t types.Type) types.Type {
	t = types.Unalias(t)
	if p, ok := t.Underlying().(*types.Pointer); ok {
		return types.Unalias(p.Elem())
	}
	return t
}

func isPointer(t types.Type) bool {
	if t == nil {
		return false
	}
	_, ok := types.Unalias(t).Underlying().(*types.Pointer)
	return ok
}

// zero value of a Go type
func (c *FnCtx) zero(t types.Type) *Term {
	srt := c.ts.sortOf(t)
	return c.zeroOfSort(srt, t).withGo(t)
}

func (c *FnCtx) zeroOfSort(srt string, t types.Type) *Term {
	switch {
	case srt == SInt:
		return intLit(0)
	case srt == "Real":
		return leaf("0.0", "Real")
	case srt == SBool:
		return tFalse
	case srt == SStr:
		return c.smt.strLit("")
	case c.ts.isSliceSort(srt):
		return c.nilSlice(srt)
	case strings.HasPrefix(srt, "T_"):
		st := structOf(t)
		if st == nil {
			for _, se := range c.ts.structs {
				if se.name == srt {
					st = se.st
				}
			}
		}
		var args []*Term
		for i := 0; i < st.NumFields(); i++ {
			args = append(args, c.zero(st.Field(i).Type()))
		}
		if len(args) == 0 {
			return leaf("mk_"+srt, srt)
		}
		return mk("mk_"+srt, srt, args...)
	case strings.HasPrefix(srt, "Pair_"):
		ab := c.ts.pairOf[srt]
		return mk("mk_"+srt, srt, c.zeroOfSort(ab[0], nil), c.zeroOfSort(ab[1], nil))
	}
	panic("zero: unknown sort " + srt)
}

func (c *FnCtx) nilSlice(srt string) *Term {
	elem := c.ts.elemSort(srt)
	name := "nilarr_" + srt
	c.smt.declare(name, fmt.Sprintf("(declare-const %s %s)", name, arraySort(SInt, elem)))
	return mk("mk_"+srt, srt, intLit(0), leaf(name, arraySort(SInt, elem)), tTrue)
}

func (c *FnCtx) sliceLen(s *Term) *Term  { return mk("len_"+s.Sort, SInt, s) }
func (c *FnCtx) sliceNil(s *Term) *Term  { return mk("isnil_"+s.Sort, SBool, s) }
func (c *FnCtx) sliceArr(s *Term) *Term {
	return mk("arr_"+s.Sort, arraySort(SInt, c.ts.elemSort(s.Sort)), s)
}
func (c *FnCtx) sliceAt(s, i *Term) *Term { return mkSelect(c.sliceArr(s), i) }
func (c *FnCtx) mkSlice(srt string, n, arr *Term) *Term {
	return mk("mk_"+srt, srt, n, arr, tFalse)
}

// structField reads field i of a struct value term.
func (c *FnCtx) structGet(v *Term, st *types.Struct, i int) *Term {
	f := st.Field(i)
	// constructor application: project directly
	if v.Op == "mk_"+v.Sort && len(v.Args) == st.NumFields() {
		return v.Args[i].withGo(f.Type())
	}
	return mk(v.Sort+"_"+f.Name(), c.ts.sortOf(f.Type()), v).withGo(f.Type())
}

func (c *FnCtx) structSet(v *Term, st *types.Struct, i int, val *Term) *Term {
	var args []*Term
	for j := 0; j < st.NumFields(); j++ {
		if j == i {
			args = append(args, val)
		} else {
			args = append(args, c.structGet(v, st, j))
		}
	}
	r := mk("mk_"+v.Sort, v.Sort, args...)
	r.GoT = v.GoT
	return r
}

// loadStruct builds the struct value stored behind a pointer.
func (c *FnCtx) loadStruct(st *State, ref *Term, t types.Type) *Term {
	s := structOf(t)
	name := c.ts.sortOf(t)
	var args []*Term
	for i := 0; i < s.NumFields(); i++ {
		f := s.Field(i)
		args = append(args, c.heapRead(st, fieldHeapName(name, f.Name()), c.ts.sortOf(f.Type()), ref))
	}
	if len(args) == 0 {
		return leaf("mk_"+name, name).withGo(t)
	}
	return mk("mk_"+name, name, args...).withGo(t)
}

// storeStruct writes all fields of a struct value behind a pointer.
func (c *FnCtx) storeStruct(st *State, ref *Term, t types.Type, v *Term) {
	s := structOf(t)
	name := c.ts.sortOf(t)
	for i := 0; i < s.NumFields(); i++ {
		f := s.Field(i)
		c.heapWrite(st, fieldHeapName(name, f.Name()), c.ts.sortOf(f.Type()), ref, c.structGet(v, s, i))
	}
}

func fieldIndex(s *types.Struct, name string) int {
	for i := 0; i < s.NumFields(); i++ {
		if s.Field(i).Name() == name {
			return i
		}
	}
	return -1
}

// map heaps
func (c *FnCtx) mapSorts(m *types.Map) (k, v string) {
	return c.ts.sortOf(m.Key()), c.ts.sortOf(m.Elem())
}
func mapDomName(k, v string) string { return "MD_" + mangleSort(k) + "_" + mangleSort(v) }
func mapValName(k, v string) string { return "MV_" + mangleSort(k) + "_" + mangleSort(v) }

func (c *FnCtx) mapDom(st *State, m *Term, mt *types.Map) *Term {
	k, v := c.mapSorts(mt)
	return c.heapRead(st, mapDomName(k, v), arraySort(k, SBool), m)
}
func (c *FnCtx) mapVal(st *State, m *Term, mt *types.Map) *Term {
	k, v := c.mapSorts(mt)
	return c.heapRead(st, mapValName(k, v), arraySort(k, v), m)
}

func (c *FnCtx) mapCard(dom *Term) *Term {
	k, _ := arraySorts(dom.Sort)
	fn := "card_" + mangleSort(k)
	c.smt.fun(fn, []string{dom.Sort}, SInt)
	c.smt.axiom(fn+"_nonneg", fmt.Sprintf("(forall ((d %s)) (! (>= (%s d) 0) :pattern ((%s d))))", dom.Sort, fn, fn), false, fn)
	c.smt.axiom(fn+"_empty", fmt.Sprintf("(= (%s ((as const %s) false)) 0)", fn, dom.Sort), false, fn)
	c.smt.axiom(fn+"_member", fmt.Sprintf("(forall ((d %s) (k %s)) (! (=> (select d k) (> (%s d) 0)) :pattern ((select d k) (%s d))))", dom.Sort, k, fn, fn), false, fn)
	c.smt.axiom(fn+"_store", fmt.Sprintf("(forall ((d %s) (k %s)) (! (= (%s (store d k true)) (ite (select d k) (%s d) (+ (%s d) 1))) :pattern ((%s (store d k true)))))", dom.Sort, k, fn, fn, fn, fn), false, fn)
	c.smt.axiom(fn+"_witness", fmt.Sprintf("(forall ((d %s)) (! (=> (> (%s d) 0) (select d (%s_wit d))) :pattern ((%s d))))", dom.Sort, fn, fn, fn), false, fn)
	c.smt.fun(fn+"_wit", []string{dom.Sort}, k)
	return mk(fn, SInt, dom)
}
