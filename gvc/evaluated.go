package main

import (
	"regexp/syntax"
	"encoding/json"
	"fmt"
	"go/types"
	"path/filepath"
	"sort"
	"strings"
)

// evaluatedValue returns the initial value of a package-level variable listed under `evaluated` in the package's
// contract file: the real initialiser is compiled and run (in-package test through -overlay) and the value imported
// as a ground fact. Exact for an input-free initialiser; listed in the evidence as "evaluated, not proved".
func (e *Engine) evaluatedValue(v *types.Var) (interface{}, bool) {
	pkg := v.Pkg().Path()
	wanted := false
	for _, n := range e.evalWanted[pkg] {
		if n == v.Name() {
			wanted = true
		}
	}
	if !wanted {
		return nil, false
	}
	if !e.evalDone[pkg] {
		e.evalDone[pkg] = true
		p := e.pkgs[pkg]
		if p == nil || len(p.GoFiles) == 0 {
			return nil, false
		}
		var sb strings.Builder
		sb.WriteString("package " + p.Types.Name() + "\n\nimport (\n\t\"encoding/json\"\n\t\"fmt\"\n\t\"testing\"\n)\n\nfunc TestGvcReplay(t *testing.T) {\n")
		for _, n := range e.evalWanted[pkg] {
			sb.WriteString(fmt.Sprintf("\t{\n\t\tb, _ := json.Marshal(%s)\n\t\tfmt.Printf(\"GVC-EVAL %s %%s\\n\", b)\n\t}\n", n, n))
		}
		sb.WriteString("}\n")
		out, _ := runOverlayTest(e.repoDir, filepath.Dir(p.GoFiles[0]), sb.String())
		for _, line := range strings.Split(out, "\n") {
			if strings.HasPrefix(line, "GVC-EVAL ") {
				f := strings.SplitN(line, " ", 3)
				var val interface{}
				if len(f) == 3 && json.Unmarshal([]byte(f[2]), &val) == nil {
					e.evalValues[pkg+"."+f[1]] = val
				}
			}
		}
	}
	val, ok := e.evalValues[pkg+"."+v.Name()]
	return val, ok
}

// groundFacts asserts the evaluated initial value of global v (term t).
func (c *FnCtx) groundFacts(v *types.Var, t *Term) {
	// regular expressions compiled from a literal at package initialisation: not nil, and the number of capture
	// groups of the literal (MustCompile panics at init, i.e. before any analysis, if the literal is malformed)
	if pat, ok := c.eng.regexpLits()[v.Pkg().Name()+"."+v.Name()]; ok {
		if re, err := syntax.Parse(pat, syntax.Perl); err == nil {
			c.smt.fun("sf_reGroups", []string{SInt}, SInt)
			c.smt.axiom("regexp:"+v.Name(), fmt.Sprintf("(and (not (= %s 0)) (= (sf_reGroups %s) %d))", t.Op, t.Op, re.MaxCap()), true, t.Op)
			c.trustedUsed["regexp literal "+v.Name()+": compiled at package initialisation, "+fmt.Sprint(re.MaxCap())+" capture groups (read from the source)"] = true
		}
	}
	val, ok := c.eng.evaluatedValue(v)
	if !ok {
		return
	}
	c.trustedUsed["evaluated (not proved): initial value of "+shortPkg(v.Pkg())+"."+v.Name()+" obtained by running the real initialiser"] = true
	var facts []string
	switch u := types.Unalias(v.Type()).Underlying().(type) {
	case *types.Map:
		m, isMap := val.(map[string]interface{})
		if !isMap || c.ts.sortOf(u.Key()) != SStr {
			return
		}
		ks, vs := c.mapSorts(u)
		domName, valName := mapDomName(ks, vs), mapValName(ks, vs)
		st := c.pre
		dom := mkSelect(c.heapArr(st, domName, arraySort(ks, SBool)), t)
		vals := mkSelect(c.heapArr(st, valName, arraySort(ks, vs)), t)
		facts = append(facts, mkNot(mkEq(t, intLit(0))).String())
		var keys []string
		for k := range m {
			keys = append(keys, k)
		}
		sort.Strings(keys)
		var anyKey []string
		for _, k := range keys {
			kl := c.smt.strLit(k)
			facts = append(facts, mkSelect(dom, kl).String())
			anyKey = append(anyKey, fmt.Sprintf("(= k %s)", kl))
			if g := c.groundValue(mkSelect(vals, kl), u.Elem(), m[k]); g != "" {
				facts = append(facts, g)
			}
		}
		if len(anyKey) > 0 {
			facts = append(facts, fmt.Sprintf("(forall ((k %s)) (! (= (select %s k) (or %s)) :pattern ((select %s k))))", ks, dom, strings.Join(anyKey, " "), dom))
		}
	default:
		if g := c.groundValue(t, v.Type(), val); g != "" {
			facts = append(facts, g)
		}
	}
	if len(facts) > 0 {
		c.smt.axiom("evaluated:"+v.Name(), "(and "+strings.Join(facts, " ")+")", true, t.Op)
	}
}

// groundValue renders "term equals the JSON value" for strings, ints, bools and slices of those.
func (c *FnCtx) groundValue(t *Term, gt types.Type, val interface{}) string {
	switch x := val.(type) {
	case string:
		if t.Sort == SStr {
			return mkEq(t, c.smt.strLit(x)).String()
		}
	case bool:
		if x {
			return t.String()
		}
		return mkNot(t).String()
	case float64:
		return mkEq(t, intLit(int64(x))).String()
	case []interface{}:
		if !c.ts.isSliceSort(t.Sort) {
			return ""
		}
		et := elemType(gt)
		parts := []string{mkEq(c.sliceLen(t), intLit(int64(len(x)))).String()}
		for i, el := range x {
			if g := c.groundValue(c.sliceAt(t, intLit(int64(i))), et, el); g != "" {
				parts = append(parts, g)
			}
		}
		return "(and " + strings.Join(parts, " ") + ")"
	}
	return ""
}

func (e *Engine) regexpLits() map[string]string {
	if e.reLits == nil {
		e.reLits = e.regexpLiterals()
	}
	return e.reLits
}
