package main

import (
	"bufio"
	"fmt"
	"go/ast"
	"go/token"
	"os"
	"path/filepath"
	"regexp/syntax"
	"strconv"
	"strings"
)

// ---------------------------------------------------------------------------
// RE2 pattern -> SMT-LIB RegLan (trusted translation, DESIGN section 4)

func smtStrLit(s string) string {
	var sb strings.Builder
	sb.WriteByte('"')
	for _, r := range s {
		switch {
		case r == '"':
			sb.WriteString(`""`)
		case r < 32 || r > 126 || r == '\\':
			sb.WriteString(fmt.Sprintf(`\u{%x}`, r))
		default:
			sb.WriteRune(r)
		}
	}
	sb.WriteByte('"')
	return sb.String()
}

func reRange(lo, hi rune) string {
	if lo == hi {
		return "(str.to_re " + smtStrLit(string(lo)) + ")"
	}
	return "(re.range " + smtStrLit(string(lo)) + " " + smtStrLit(string(hi)) + ")"
}

// reToSMT translates a parsed regexp. Anchors are only accepted at the very beginning / end (the translation is a
// full-match language); everything else unsupported is an error.
func reToSMT(re *syntax.Regexp) (string, error) {
	switch re.Op {
	case syntax.OpEmptyMatch:
		return `(str.to_re "")`, nil
	case syntax.OpLiteral:
		if re.Flags&syntax.FoldCase != 0 {
			return "", fmt.Errorf("case folding not supported")
		}
		return "(str.to_re " + smtStrLit(string(re.Rune)) + ")", nil
	case syntax.OpCharClass:
		var parts []string
		for i := 0; i+1 < len(re.Rune); i += 2 {
			lo, hi := re.Rune[i], re.Rune[i+1]
			if hi > 0x2FFFF {
				hi = 0x2FFFF
			}
			if lo > hi {
				continue
			}
			parts = append(parts, reRange(lo, hi))
		}
		if len(parts) == 0 {
			return "re.none", nil
		}
		if len(parts) == 1 {
			return parts[0], nil
		}
		return "(re.union " + strings.Join(parts, " ") + ")", nil
	case syntax.OpAnyCharNotNL:
		return `(re.diff re.allchar (str.to_re "\u{a}"))`, nil
	case syntax.OpAnyChar:
		return "re.allchar", nil
	case syntax.OpCapture:
		return reToSMT(re.Sub[0])
	case syntax.OpStar, syntax.OpPlus, syntax.OpQuest:
		s, err := reToSMT(re.Sub[0])
		if err != nil {
			return "", err
		}
		op := map[syntax.Op]string{syntax.OpStar: "re.*", syntax.OpPlus: "re.+", syntax.OpQuest: "re.opt"}[re.Op]
		return "(" + op + " " + s + ")", nil
	case syntax.OpRepeat:
		s, err := reToSMT(re.Sub[0])
		if err != nil {
			return "", err
		}
		if re.Max < 0 {
			return fmt.Sprintf("(re.++ ((_ re.^ %d) %s) (re.* %s))", re.Min, s, s), nil
		}
		return fmt.Sprintf("((_ re.loop %d %d) %s)", re.Min, re.Max, s), nil
	case syntax.OpConcat, syntax.OpAlternate:
		var parts []string
		for _, sub := range re.Sub {
			s, err := reToSMT(sub)
			if err != nil {
				return "", err
			}
			parts = append(parts, s)
		}
		if len(parts) == 1 {
			return parts[0], nil
		}
		op := "re.++"
		if re.Op == syntax.OpAlternate {
			op = "re.union"
		}
		return "(" + op + " " + strings.Join(parts, " ") + ")", nil
	}
	return "", fmt.Errorf("unsupported regexp operator %v", re.Op)
}

// patternToSMT parses an RE2 pattern that must be anchored with ^ ... $ (or not anchored at all when anchored=false is
// accepted by the caller) and returns the RegLan of the strings it matches entirely.
func patternToSMT(pattern string, optionalGroupMandatory int) (string, error) {
	re, err := syntax.Parse(pattern, syntax.Perl)
	if err != nil {
		return "", err
	}
	if optionalGroupMandatory > 0 {
		if !makeGroupMandatory(re, optionalGroupMandatory) {
			return "", fmt.Errorf("capture group %d is not inside an optional group", optionalGroupMandatory)
		}
	}
	// strip ^ and $ at the ends
	if re.Op == syntax.OpConcat && len(re.Sub) > 0 {
		subs := re.Sub
		if subs[0].Op == syntax.OpBeginText {
			subs = subs[1:]
		} else {
			return "", fmt.Errorf("pattern is not anchored at the start")
		}
		if len(subs) > 0 && subs[len(subs)-1].Op == syntax.OpEndText {
			subs = subs[:len(subs)-1]
		} else {
			return "", fmt.Errorf("pattern is not anchored at the end")
		}
		re = &syntax.Regexp{Op: syntax.OpConcat, Sub: subs}
	} else {
		return "", fmt.Errorf("pattern is not anchored")
	}
	if containsAnchor(re) {
		return "", fmt.Errorf("anchor inside the pattern")
	}
	return reToSMT(re)
}

func containsAnchor(re *syntax.Regexp) bool {
	switch re.Op {
	case syntax.OpBeginText, syntax.OpEndText, syntax.OpBeginLine, syntax.OpEndLine, syntax.OpWordBoundary, syntax.OpNoWordBoundary:
		return true
	}
	for _, s := range re.Sub {
		if containsAnchor(s) {
			return true
		}
	}
	return false
}

// makeGroupMandatory rewrites the innermost `?` that contains capture group n into its operand: the language of
// the strings the pattern matches WITH group n participating (leftmost-first matching takes an optional group
// whenever the whole pattern can match with it).
func makeGroupMandatory(re *syntax.Regexp, n int) bool {
	for i, s := range re.Sub {
		if s.Op == syntax.OpQuest && hasCapture(s, n) {
			if !makeGroupMandatory(s, n) {
				re.Sub[i] = s.Sub[0]
			}
			return true
		}
		if makeGroupMandatory(s, n) {
			return true
		}
	}
	return false
}

func hasCapture(re *syntax.Regexp, n int) bool {
	if re.Op == syntax.OpCapture && re.Cap == n {
		return true
	}
	for _, s := range re.Sub {
		if hasCapture(s, n) {
			return true
		}
	}
	return false
}

// ---------------------------------------------------------------------------
// grammar specification

type grammarRule struct {
	Var       string // package-level regexp variable, "pkg.var"
	Keyword   string // the @keyword the pre-filters look for
	Reference string // RE2 text of the documented language (full match)
	Mandatory int    // capture group that must participate for the line to be recognised (0: none)
	Line      int
}

// loadGrammar reads /verif/contracts/grammar.spec:
//   domain <re2>                       the comment texts under consideration
//   rule <pkg.var> <@keyword> <group> <re2 reference>
func loadGrammar(path string) (domain string, rules []grammarRule, err error) {
	f, err := os.Open(path)
	if err != nil {
		return "", nil, err
	}
	defer f.Close()
	sc := bufio.NewScanner(f)
	ln := 0
	for sc.Scan() {
		ln++
		line := strings.TrimSpace(sc.Text())
		if line == "" || strings.HasPrefix(line, "#") {
			continue
		}
		fs := strings.SplitN(line, " ", 2)
		switch fs[0] {
		case "domain":
			domain = strings.TrimSpace(fs[1])
		case "rule":
			p := strings.SplitN(strings.TrimSpace(fs[1]), " ", 4)
			if len(p) != 4 {
				return "", nil, fmt.Errorf("%s:%d: bad rule", path, ln)
			}
			g, _ := strconv.Atoi(p[2])
			rules = append(rules, grammarRule{Var: p[0], Keyword: p[1], Mandatory: g, Reference: strings.TrimSpace(p[3]), Line: ln})
		default:
			return "", nil, fmt.Errorf("%s:%d: unknown directive %s", path, ln, fs[0])
		}
	}
	return domain, rules, nil
}

// regexpLiterals finds `var x = regexp.MustCompile(<literal>)` in the repository packages: "pkgname.var" -> pattern.
func (e *Engine) regexpLiterals() map[string]string {
	out := map[string]string{}
	for path, p := range e.pkgs {
		if !strings.HasPrefix(path, repoPrefix) {
			continue
		}
		for _, f := range p.Syntax {
			if strings.HasSuffix(e.fset.Position(f.Pos()).Filename, "_test.go") {
				continue
			}
			for _, d := range f.Decls {
				gd, ok := d.(*ast.GenDecl)
				if !ok || gd.Tok != token.VAR {
					continue
				}
				for _, sp := range gd.Specs {
					vs := sp.(*ast.ValueSpec)
					for i, name := range vs.Names {
						if i >= len(vs.Values) {
							continue
						}
						call, ok := vs.Values[i].(*ast.CallExpr)
						if !ok || len(call.Args) != 1 {
							continue
						}
						sel, ok := call.Fun.(*ast.SelectorExpr)
						if !ok || sel.Sel.Name != "MustCompile" {
							continue
						}
						if x, ok := sel.X.(*ast.Ident); !ok || x.Name != "regexp" {
							continue
						}
						if tv, ok := p.TypesInfo.Types[call.Args[0]]; ok && tv.Value != nil {
							if s, err := strconv.Unquote(tv.Value.ExactString()); err == nil {
								out[p.Types.Name()+"."+name.Name] = s
							}
						}
					}
				}
			}
		}
	}
	return out
}

// relangExtras: language obligations for the annotation grammar (C15) - and their corollaries used as assumed
// lemmas by the parse contracts (a match implies the keyword occurs in the text).
func relangExtras(e *Engine, vdir string) ([]Extra, []string) {
	var notes []string
	domainRE, rules, err := loadGrammar(filepath.Join(vdir, "contracts", "grammar.spec"))
	if err != nil {
		return []Extra{{Name: "relang/grammar-spec", Kind: "relang", Detail: "grammar specification loads", Decided: true, OK: false, Output: err.Error()}}, nil
	}
	lits := e.regexpLiterals()
	dom, err := patternToSMT("^"+domainRE+"$", 0)
	if err != nil {
		return []Extra{{Name: "relang/domain", Kind: "relang", Detail: "domain translates", Decided: true, OK: false, Output: err.Error()}}, nil
	}
	var out []Extra
	for _, r := range rules {
		pat, ok := lits[r.Var]
		name := "relang/" + r.Var
		if !ok {
			out = append(out, Extra{Name: name + "/recognised", Kind: "relang", Detail: "regexp literal of " + r.Var + " found in the source", Decided: true, OK: false, Output: "no `var " + r.Var + " = regexp.MustCompile(<constant>)` in the source"})
			continue
		}
		code, err := patternToSMT(pat, r.Mandatory)
		if err != nil {
			out = append(out, Extra{Name: name + "/recognised", Kind: "relang", Detail: "regexp literal of " + r.Var + " is within the translated RE2 subset", Decided: true, OK: false, Output: err.Error() + " in " + pat})
			continue
		}
		ref, err := patternToSMT("^"+r.Reference+"$", 0)
		if err != nil {
			out = append(out, Extra{Name: name + "/recognised", Kind: "relang", Detail: "reference language translates", Decided: true, OK: false, Output: err.Error()})
			continue
		}
		plain, _ := patternToSMT(pat, 0)
		// (1) recognised language == documented language, on the domain of line-comment texts
		q := "(declare-const s String)\n" +
			"(assert (str.in_re s " + dom + "))\n" +
			"(assert (xor (str.in_re s " + code + ") (str.in_re s " + ref + ")))\n(check-sat)\n"
		out = append(out, Extra{Name: name + "/recognised", Kind: "relang", Detail: fmt.Sprintf("on line-comment texts, %s (group %d participating) recognises exactly the documented language %s", r.Var, r.Mandatory, r.Reference), Text: q})
		// (2) every match contains the keyword: the substring pre-filters never hide a match
		q2 := "(declare-const s String)\n" +
			"(assert (str.in_re s " + plain + "))\n" +
			"(assert (not (str.in_re s (re.++ re.all (str.to_re " + smtStrLit(r.Keyword) + ") re.all))))\n(check-sat)\n"
		out = append(out, Extra{Name: name + "/prefilter", Kind: "relang", Detail: "every text matched by " + r.Var + " contains " + r.Keyword, Text: q2})
	}
	notes = append(notes, fmt.Sprintf("relang: %d regexp literals read from the source, %d grammar rules", len(lits), len(rules)))
	return out, notes
}
