package main

import (
	"bufio"
	"encoding/json"
	"fmt"
	"go/types"
	"io"
	"os"
	"os/exec"
	"path/filepath"
	"regexp"
	"strings"
	"time"
)

// ---------------------------------------------------------------------------
// interactive model queries

type z3Session struct {
	cmd *exec.Cmd
	in  io.WriteCloser
	out *bufio.Reader
}

func startZ3(args ...string) (*z3Session, error) {
	cmd := exec.Command("z3-new", append([]string{"-in", "-T:20"}, args...)...)
	in, err := cmd.StdinPipe()
	if err != nil {
		return nil, err
	}
	out, err := cmd.StdoutPipe()
	if err != nil {
		return nil, err
	}
	if err := cmd.Start(); err != nil {
		return nil, err
	}
	return &z3Session{cmd: cmd, in: in, out: bufio.NewReader(out)}, nil
}

func (z *z3Session) close() {
	z.in.Close()
	done := make(chan struct{})
	go func() { z.cmd.Wait(); close(done) }()
	select {
	case <-done:
	case <-time.After(2 * time.Second):
		z.cmd.Process.Kill()
	}
}

// ask sends text and reads one complete answer (a line or a balanced s-expression).
func (z *z3Session) ask(text string) (string, error) {
	if _, err := io.WriteString(z.in, text+"\n"); err != nil {
		return "", err
	}
	type res struct {
		s   string
		err error
	}
	ch := make(chan res, 1)
	go func() {
		var sb strings.Builder
		depth := 0
		started := false
		for {
			line, err := z.out.ReadString('\n')
			sb.WriteString(line)
			for _, c := range line {
				if c == '(' {
					depth++
					started = true
				}
				if c == ')' {
					depth--
				}
			}
			if err != nil {
				ch <- res{sb.String(), err}
				return
			}
			if (!started && strings.TrimSpace(line) != "") || (started && depth <= 0) {
				ch <- res{sb.String(), nil}
				return
			}
		}
	}()
	select {
	case r := <-ch:
		return strings.TrimSpace(r.s), r.err
	case <-time.After(25 * time.Second):
		z.cmd.Process.Kill()
		return "", fmt.Errorf("solver timeout")
	}
}

var valuePair = regexp.MustCompile(`\(\s*(\([^()]*(?:\([^()]*\)[^()]*)*\)|[^\s()]+)\s+(\(-\s*\d+\)|-?\d+|true|false|[^\s()]+)\s*\)`)

// getInts evaluates integer/boolean terms in the current model.
func (z *z3Session) getValues(terms []string) ([]string, error) {
	if len(terms) == 0 {
		return nil, nil
	}
	ans, err := z.ask("(get-value (" + strings.Join(terms, " ") + "))")
	if err != nil {
		return nil, err
	}
	if strings.HasPrefix(ans, "(error") {
		return nil, fmt.Errorf("%s", ans)
	}
	// parse "((t v) (t v) ...)" positionally
	body := strings.TrimSpace(ans)
	body = strings.TrimPrefix(body, "(")
	body = strings.TrimSuffix(body, ")")
	var vals []string
	rest := body
	for len(vals) < len(terms) {
		rest = strings.TrimLeft(rest, " \n\t")
		if rest == "" {
			break
		}
		pair := readSexp(rest)
		rest = rest[len(pair):]
		inner := strings.TrimSpace(pair[1 : len(pair)-1])
		t := readSexp(inner)
		v := strings.TrimSpace(inner[len(t):])
		vals = append(vals, v)
	}
	if len(vals) != len(terms) {
		return nil, fmt.Errorf("get-value: expected %d values, got %d in %q", len(terms), len(vals), truncate(ans, 200))
	}
	return vals, nil
}

// ---------------------------------------------------------------------------
// function-level replay: concrete inputs from the model, the real function run through `go test -overlay`,
// the violated clause evaluated on the observed result.

type paramVal struct {
	Name string
	Type types.Type
	Go   string      // Go literal
	Val  interface{} // concrete value for the clause evaluator
}

func simpleKind(t types.Type) string {
	switch u := types.Unalias(t).Underlying().(type) {
	case *types.Basic:
		switch {
		case u.Info()&types.IsInteger != 0:
			return "int"
		case u.Info()&types.IsString != 0:
			return "string"
		case u.Info()&types.IsBoolean != 0:
			return "bool"
		}
	case *types.Slice:
		if simpleKind(u.Elem()) == "string" {
			return "[]string"
		}
	}
	return ""
}

func (e *Engine) replayFunction(in *oblInst, tier string) map[string]interface{} {
	c := in.rep.Ctx
	fi := c.fi
	sig := fi.Obj.Type().(*types.Signature)
	if sig.Recv() != nil {
		return nil
	}
	var names []string
	var ptypes []types.Type
	for i := 0; i < sig.Params().Len(); i++ {
		p := sig.Params().At(i)
		if simpleKind(p.Type()) == "" || p.Name() == "" || p.Name() == "_" {
			return nil
		}
		names = append(names, p.Name())
		ptypes = append(ptypes, p.Type())
	}
	for i := 0; i < sig.Results().Len(); i++ {
		if simpleKind(sig.Results().At(i).Type()) == "" {
			return nil
		}
	}
	vals, err := c.concreteInputs(in, names, ptypes)
	if err != nil {
		return map[string]interface{}{"attempted": false, "replayed": false, "note": "no concrete inputs from the model: " + err.Error()}
	}
	out := map[string]interface{}{"attempted": true, "function": shortFuncKey(fi.Key)}
	inputs := map[string]interface{}{}
	var args []string
	for _, v := range vals {
		inputs[v.Name] = v.Val
		args = append(args, v.Go)
	}
	out["inputs"] = inputs
	// generate the in-package test
	var sb strings.Builder
	pkgName := fi.Pkg.Types.Name()
	sb.WriteString("package " + pkgName + "\n\nimport (\n\t\"encoding/json\"\n\t\"fmt\"\n\t\"testing\"\n)\n\n")
	sb.WriteString("func TestGvcReplay(t *testing.T) {\n")
	sb.WriteString("\tdefer func() {\n\t\tif r := recover(); r != nil {\n\t\t\tfmt.Printf(\"GVC-PANIC %v\\n\", r)\n\t\t}\n\t}()\n")
	var rs []string
	for i := 0; i < sig.Results().Len(); i++ {
		rs = append(rs, fmt.Sprintf("r%d", i))
	}
	call := fi.Obj.Name() + "(" + strings.Join(args, ", ") + ")"
	if len(rs) > 0 {
		sb.WriteString("\t" + strings.Join(rs, ", ") + " := " + call + "\n")
		sb.WriteString("\tb, _ := json.Marshal([]interface{}{" + strings.Join(rs, ", ") + "})\n")
		sb.WriteString("\tfmt.Printf(\"GVC-RESULT %s\\n\", b)\n")
	} else {
		sb.WriteString("\t" + call + "\n\tfmt.Printf(\"GVC-RESULT []\\n\")\n")
	}
	sb.WriteString("}\n")
	out["test_source"] = sb.String()
	pkgDir := filepath.Dir(e.fset.Position(fi.Decl.Pos()).Filename)
	stdout, err := runOverlayTest(e.repoDir, pkgDir, sb.String())
	out["go_test_output"] = truncate(stdout, 3000)
	if err != nil && !strings.Contains(stdout, "GVC-") {
		out["note"] = "replay harness failed: " + err.Error()
		out["attempted"] = false
		return out
	}
	isSafety := strings.HasPrefix(in.obl.Kind, "safe")
	if i := strings.Index(stdout, "GVC-PANIC "); i >= 0 {
		line := stdout[i:]
		if j := strings.IndexByte(line, '\n'); j >= 0 {
			line = line[:j]
		}
		out["observed"] = line
		out["required"] = "no panic: " + in.obl.Detail
		out["confirmed"] = true
		out["replayed"] = true
		return out
	}
	i := strings.Index(stdout, "GVC-RESULT ")
	if i < 0 {
		out["note"] = "no result line in test output"
		out["attempted"] = false
		return out
	}
	line := stdout[i+len("GVC-RESULT "):]
	if j := strings.IndexByte(line, '\n'); j >= 0 {
		line = line[:j]
	}
	var results []interface{}
	if err := json.Unmarshal([]byte(line), &results); err != nil {
		out["note"] = "cannot parse result: " + err.Error()
		out["attempted"] = false
		return out
	}
	out["observed"] = results
	if isSafety {
		out["confirmed"] = false
		out["replayed"] = true
		out["note"] = "the real function did not panic on the model's inputs"
		return out
	}
	if in.obl.Kind != "post" || c.contract == nil {
		out["confirmed"] = false
		return out
	}
	// evaluate the violated clause concretely
	var k int
	fmt.Sscanf(in.obl.Sub, "%d", &k)
	if k < 1 || k > len(c.contract.Ensures) {
		out["confirmed"] = false
		return out
	}
	ce := &concEval{eng: e, env: map[string]interface{}{}}
	for _, v := range vals {
		ce.env[v.Name] = v.Val
	}
	for i, r := range results {
		r = normJSON(r)
		ce.env[fmt.Sprintf("result%d", i)] = r
		if i == 0 {
			ce.env["result"] = r
		}
		if n := sig.Results().At(i).Name(); n != "" && n != "_" {
			ce.env[n] = r
		}
	}
	holds, err := ce.evalClause(c.contract, c.contract.Ensures[k-1].Expr)
	if err != nil {
		out["note"] = "clause not executable: " + err.Error()
		out["confirmed"] = false
		out["attempted"] = false
		return out
	}
	out["required"] = c.contract.Ensures[k-1].Text
	out["clause_holds_on_observed_result"] = holds
	out["confirmed"] = !holds
	out["replayed"] = true
	return out
}

func normJSON(v interface{}) interface{} {
	switch x := v.(type) {
	case float64:
		return int64(x)
	case []interface{}:
		for i := range x {
			x[i] = normJSON(x[i])
		}
		return x
	case nil:
		return []interface{}{}
	}
	return v
}

// concreteInputs asks the solver for a small model of the failing query and reads the parameters back.
func (c *FnCtx) concreteInputs(in *oblInst, names []string, ptypes []types.Type) ([]paramVal, error) {
	text := in.text
	text = strings.Replace(text, "(check-sat)\n", "", 1)
	var syms []*Term
	for _, n := range names {
		t, ok := c.env[n]
		if !ok {
			return nil, fmt.Errorf("parameter %s has no symbol", n)
		}
		syms = append(syms, t)
	}
	for _, bound := range []int{12, 48, 400, 0} {
		z, err := startZ3("smt.auto_config=false", "smt.mbqi=false", "smt.candidate_models=true")
		if err != nil {
			return nil, err
		}
		q := text
		if bound > 0 {
			for i, s := range syms {
				switch simpleKind(ptypes[i]) {
				case "int":
					q += fmt.Sprintf("(assert (and (<= (- %d) %s) (<= %s %d)))\n", bound, s, s, bound)
				case "string":
					q += fmt.Sprintf("(assert (<= (slen %s) %d))\n", s, bound)
				case "[]string":
					q += fmt.Sprintf("(assert (<= (len_%s %s) %d))\n", s.Sort, s, 4)
				}
			}
		}
		if _, err := io.WriteString(z.in, q); err != nil {
			z.close()
			return nil, err
		}
		ans, err := z.ask("(check-sat)")
		if err != nil || (ans != "sat" && ans != "unknown") {
			z.close()
			continue
		}
		vals, err := c.readParams(z, names, ptypes, syms)
		z.close()
		if err != nil {
			return nil, err
		}
		return vals, nil
	}
	return nil, fmt.Errorf("solver gave no model")
}

func (c *FnCtx) readParams(z *z3Session, names []string, ptypes []types.Type, syms []*Term) ([]paramVal, error) {
	var out []paramVal
	readStr := func(term string) (string, error) {
		lv, err := z.getValues([]string{"(slen " + term + ")"})
		if err != nil {
			return "", err
		}
		n, ok := modelInt(lv[0])
		if !ok || n < 0 || n > 5000 {
			return "", fmt.Errorf("bad string length %q", lv[0])
		}
		var ts []string
		for i := int64(0); i < n; i++ {
			ts = append(ts, fmt.Sprintf("(sbyte %s %d)", term, i))
		}
		bs := make([]byte, n)
		if n > 0 {
			vs, err := z.getValues(ts)
			if err != nil {
				return "", err
			}
			for i, v := range vs {
				b, ok := modelInt(v)
				if !ok || b < 0 || b > 255 {
					b = 'x'
				}
				bs[i] = byte(b)
			}
		}
		return string(bs), nil
	}
	for i, s := range syms {
		pv := paramVal{Name: names[i], Type: ptypes[i]}
		switch simpleKind(ptypes[i]) {
		case "int":
			vs, err := z.getValues([]string{s.String()})
			if err != nil {
				return nil, err
			}
			n, ok := modelInt(vs[0])
			if !ok {
				return nil, fmt.Errorf("bad int %q", vs[0])
			}
			pv.Val = n
			pv.Go = fmt.Sprintf("%d", n)
			if named, ok := types.Unalias(ptypes[i]).(*types.Named); ok {
				pv.Go = fmt.Sprintf("%s(%d)", types.TypeString(named, func(p *types.Package) string {
					if p == c.pkg {
						return ""
					}
					return p.Name()
				}), n)
			}
		case "bool":
			vs, err := z.getValues([]string{s.String()})
			if err != nil {
				return nil, err
			}
			pv.Val = vs[0] == "true"
			pv.Go = vs[0]
		case "string":
			str, err := readStr(s.String())
			if err != nil {
				return nil, err
			}
			pv.Val = str
			pv.Go = fmt.Sprintf("%q", str)
		case "[]string":
			lv, err := z.getValues([]string{fmt.Sprintf("(len_%s %s)", s.Sort, s)})
			if err != nil {
				return nil, err
			}
			n, ok := modelInt(lv[0])
			if !ok || n > 64 {
				return nil, fmt.Errorf("bad slice length %q", lv[0])
			}
			var elems []interface{}
			var lits []string
			for k := int64(0); k < n; k++ {
				str, err := readStr(fmt.Sprintf("(select (arr_%s %s) %d)", s.Sort, s, k))
				if err != nil {
					return nil, err
				}
				elems = append(elems, str)
				lits = append(lits, fmt.Sprintf("%q", str))
			}
			if elems == nil {
				elems = []interface{}{}
			}
			pv.Val = elems
			pv.Go = "[]string{" + strings.Join(lits, ", ") + "}"
		}
		out = append(out, pv)
	}
	return out, nil
}

// runOverlayTest runs an in-package test injected through -overlay; nothing is written under the repository.
func runOverlayTest(repoDir, pkgDir, src string) (string, error) {
	tmp, err := os.MkdirTemp("", "gvc-replay-")
	if err != nil {
		return "", err
	}
	defer os.RemoveAll(tmp)
	testFile := filepath.Join(tmp, "zz_gvc_replay_test.go")
	if err := os.WriteFile(testFile, []byte(src), 0o644); err != nil {
		return "", err
	}
	ov := map[string]interface{}{"Replace": map[string]string{filepath.Join(pkgDir, "zz_gvc_replay_test.go"): testFile}}
	b, _ := json.Marshal(ov)
	ovFile := filepath.Join(tmp, "overlay.json")
	os.WriteFile(ovFile, b, 0o644)
	rel, err := filepath.Rel(repoDir, pkgDir)
	if err != nil {
		return "", err
	}
	cmd := exec.Command("go", "test", "-mod=mod", "-overlay", ovFile, "-vet=off", "-count=1", "-timeout", "60s", "-run", "^TestGvcReplay$", "-v", "./"+rel)
	cmd.Dir = repoDir
	cmd.Env = append(os.Environ(), "GOFLAGS=-mod=mod", "GOPROXY=off")
	out, err := cmd.CombinedOutput()
	return string(out), err
}

func cmdReplay(args []string) {
	if len(args) != 1 {
		fmt.Fprintln(os.Stderr, "usage: gvc replay <replay.json>")
		os.Exit(2)
	}
	data, err := os.ReadFile(args[0])
	if err != nil {
		fmt.Fprintln(os.Stderr, err)
		os.Exit(2)
	}
	var rp map[string]interface{}
	if err := json.Unmarshal(data, &rp); err != nil {
		fmt.Fprintln(os.Stderr, err)
		os.Exit(2)
	}
	fmt.Printf("obligation: %v\nclause: %v\n", rp["obligation"], rp["clause"])
	src, _ := rp["test_source"].(string)
	fn, _ := rp["function"].(string)
	if src == "" || fn == "" {
		fmt.Println("this replay file carries no executable test (no failing input was found); verifier output:")
		fmt.Println(rp["verifier_output"])
		return
	}
	// locate the package directory of the function
	pkgRel := fn
	if i := strings.Index(fn, "."); i >= 0 {
		pkgRel = fn[:i]
	}
	out, err := runOverlayTest(repoDir(), filepath.Join(repoDir(), "src", pkgRel), src)
	fmt.Println(out)
	if err != nil {
		fmt.Println("go test:", err)
	}
	fmt.Printf("inputs: %v\nrequired: %v\nobserved at check time: %v\n", rp["inputs"], rp["required"], rp["observed"])
}
