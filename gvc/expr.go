package main

import (
	"fmt"
	"go/ast"
	"go/constant"
	"go/token"
	"go/types"
	"strconv"
	"strings"
)

func (c *FnCtx) exprText(e ast.Node) string {
	if e == nil {
		return ""
	}
	p := c.eng.fset.Position(e.Pos())
	q := c.eng.fset.Position(e.End())
	src := c.eng.source(p.Filename)
	if src == nil || p.Offset < 0 || q.Offset > len(src) || p.Offset > q.Offset {
		return ""
	}
	s := string(src[p.Offset:q.Offset])
	if len(s) > 120 {
		s = s[:117] + "..."
	}
	return strings.Join(strings.Fields(s), " ")
}

func (c *FnCtx) typeOf(e ast.Expr) types.Type {
	if tv, ok := c.info.Types[e]; ok && tv.Type != nil {
		return tv.Type
	}
	if id, ok := e.(*ast.Ident); ok {
		if o := c.info.ObjectOf(id); o != nil {
			return o.Type()
		}
	}
	return nil
}

func (c *FnCtx) constTerm(v constant.Value, t types.Type) *Term {
	switch v.Kind() {
	case constant.Bool:
		if constant.BoolVal(v) {
			return tTrue.withGo(t)
		}
		return tFalse.withGo(t)
	case constant.String:
		return c.smt.strLit(constant.StringVal(v)).withGo(t)
	case constant.Int:
		n, ok := constant.Int64Val(v)
		if !ok {
			c.assumptionsUsed["integer constant beyond int64 truncated"] = true
		}
		return intLit(n).withGo(t)
	}
	panic(unsupported{"constant kind " + v.Kind().String()})
}

// eval evaluates a single-valued expression.
func (c *FnCtx) eval(st *State, e ast.Expr) *Term {
	if tv, ok := c.info.Types[e]; ok && tv.Value != nil {
		return c.constTerm(tv.Value, tv.Type)
	}
	t := c.eval0(st, e)
	if t.GoT == nil {
		if gt := c.typeOf(e); gt != nil {
			t = t.withGo(gt)
		}
	}
	return t
}

func (c *FnCtx) eval0(st *State, e ast.Expr) *Term {
	switch x := e.(type) {
	case *ast.ParenExpr:
		return c.eval(st, x.X)
	case *ast.BasicLit:
		switch x.Kind {
		case token.INT:
			n, _ := strconv.ParseInt(x.Value, 0, 64)
			return intLit(n)
		case token.STRING:
			s, _ := strconv.Unquote(x.Value)
			return c.smt.strLit(s)
		case token.CHAR:
			r, _, _, _ := strconv.UnquoteChar(x.Value[1:len(x.Value)-1], '\'')
			return intLit(int64(r))
		}
	case *ast.Ident:
		return c.evalIdent(st, x)
	case *ast.SelectorExpr:
		return c.evalSelector(st, x)
	case *ast.StarExpr:
		p := c.eval(st, x.X)
		return c.derefPtr(st, p, c.typeOf(x.X), x)
	case *ast.UnaryExpr:
		return c.evalUnary(st, x)
	case *ast.BinaryExpr:
		return c.evalBinary(st, x)
	case *ast.IndexExpr:
		return c.evalIndex(st, x)
	case *ast.SliceExpr:
		return c.evalSliceExpr(st, x)
	case *ast.CallExpr:
		rs := c.evalCall(st, x)
		if len(rs) != 1 {
			c.unsupportedf(e, "call with %d results in single-value context", len(rs))
		}
		return rs[0]
	case *ast.CompositeLit:
		return c.evalCompositeLit(st, x, false)
	case *ast.FuncLit:
		return c.closureValue(x)
	case *ast.TypeAssertExpr:
		v, ok := c.evalTypeAssert(st, x)
		c.oblige(st, "safe:assert", x, "", "type assertion "+c.exprText(x)+" cannot fail", ok)
		st.assume(ok)
		return v
	}
	c.unsupportedf(e, "expression %T", e)
	return nil
}

func (c *FnCtx) closureValue(lit *ast.FuncLit) *Term {
	name := fmt.Sprintf("closure#%d", len(c.closures)+1)
	for n, cl := range c.closures {
		if cl.Lit == lit {
			name = n
		}
	}
	c.closures[name] = &Closure{Lit: lit}
	return leaf(name, SInt)
}

func (c *FnCtx) evalIdent(st *State, id *ast.Ident) *Term {
	obj := c.info.ObjectOf(id)
	switch o := obj.(type) {
	case *types.Nil:
		t := c.typeOf(id)
		if t != nil {
			return c.zero(t)
		}
		return intLit(0)
	case *types.Const:
		return c.constTerm(o.Val(), o.Type())
	case *types.Var:
		return c.readVar(st, o, id)
	case *types.Func:
		return leaf("func:"+funcKey(o), SInt)
	case *types.Builtin:
		c.unsupportedf(id, "builtin %s as value", id.Name)
	}
	if id.Name == "_" {
		c.unsupportedf(id, "blank identifier read")
	}
	c.unsupportedf(id, "identifier %s (%T)", id.Name, obj)
	return nil
}

func (c *FnCtx) isGlobal(v *types.Var) bool {
	return v.Pkg() != nil && v.Parent() == v.Pkg().Scope()
}

func (c *FnCtx) readVar(st *State, v *types.Var, site ast.Node) *Term {
	if c.isGlobal(v) {
		return c.globalRead(st, v)
	}
	t, ok := st.vars[v]
	if !ok {
		c.unsupportedf(site, "variable %s has no value (captured from an unmodelled scope?)", v.Name())
	}
	if c.boxed[v] {
		return c.loadCell(st, t, v.Type())
	}
	return t.withGo(v.Type())
}

func (c *FnCtx) writeVar(st *State, v *types.Var, val *Term) {
	if c.isGlobal(v) {
		c.globalWrite(st, v, val)
		return
	}
	if c.boxed[v] {
		c.storeCell(st, st.vars[v], v.Type(), val)
		return
	}
	if g := st.guard(); !isLit(g, "true") {
		if old, ok := st.vars[v]; ok {
			val = mkIte(g, val, old)
		}
	}
	st.vars[v] = val.withGo(v.Type())
}

// loadCell / storeCell: a heap cell holding a value of Go type t behind reference ref.
func (c *FnCtx) loadCell(st *State, ref *Term, t types.Type) *Term {
	if isRepoStruct(t) {
		return c.loadStruct(st, ref, t)
	}
	srt := c.ts.sortOf(t)
	return c.heapRead(st, "Hp_"+mangleSort(srt), srt, ref).withGo(t)
}

func (c *FnCtx) storeCell(st *State, ref *Term, t types.Type, val *Term) {
	if isRepoStruct(t) {
		c.storeStruct(st, ref, t, val)
		return
	}
	srt := c.ts.sortOf(t)
	c.heapWrite(st, "Hp_"+mangleSort(srt), srt, ref, val)
}

func (c *FnCtx) nonNil(st *State, ref *Term, site ast.Node, what string) {
	c.oblige(st, "safe:nil", site, "", "nil dereference: "+what, mkNot(mkEq(ref, intLit(0))))
	st.assume(mkNot(mkEq(ref, intLit(0))))
}

func (c *FnCtx) derefPtr(st *State, p *Term, pt types.Type, site ast.Node) *Term {
	elem := deref(pt)
	c.nonNil(st, p, site, c.exprText(site))
	if isExtStruct(elem) {
		c.unsupportedf(site, "dereference of external struct pointer as a value")
	}
	return c.loadCell(st, p, elem)
}

// extField: field of an external struct (through pointer or opaque value): immutable observer function.
func (c *FnCtx) extField(recv *Term, owner *types.Named, f *types.Var) *Term {
	name := "F_" + shortPkg(owner.Obj().Pkg()) + "." + owner.Obj().Name() + "." + f.Name()
	srt := c.ts.sortOf(f.Type())
	c.smt.fun(sanitize(name), []string{SInt}, srt)
	return mk(sanitize(name), srt, recv).withGo(f.Type())
}

func ownerNamed(t types.Type) *types.Named {
	t = types.Unalias(t)
	if p, ok := t.Underlying().(*types.Pointer); ok {
		t = types.Unalias(p.Elem())
	}
	n, _ := t.(*types.Named)
	return n
}

// selectField performs one field selection step on value v of Go type t.
func (c *FnCtx) selectField(st *State, v *Term, t types.Type, f *types.Var, idx int, site ast.Node) *Term {
	if isPointer(t) {
		elem := deref(t)
		c.nonNil(st, v, site, c.exprText(site))
		if isRepoStruct(elem) {
			name := c.ts.sortOf(elem)
			return c.heapRead(st, fieldHeapName(name, f.Name()), c.ts.sortOf(f.Type()), v).withGo(f.Type())
		}
		owner := ownerNamed(elem)
		if owner == nil {
			c.unsupportedf(site, "field of unnamed external struct")
		}
		r := c.extField(v, owner, f)
		c.extFieldFacts(st, r, owner, f)
		return r
	}
	if isRepoStruct(t) {
		return c.structGet(v, structOf(t), idx)
	}
	owner := ownerNamed(t)
	if owner == nil {
		c.unsupportedf(site, "field of unnamed external struct value")
	}
	r := c.extField(v, owner, f)
	c.extFieldFacts(st, r, owner, f)
	return r
}

// extFieldFacts: pointer/interface fields of external structs are non-nil unless listed nullable.
func (c *FnCtx) extFieldFacts(st *State, r *Term, owner *types.Named, f *types.Var) {
	key := owner.Obj().Pkg().Path() + "." + owner.Obj().Name() + "." + f.Name()
	switch types.Unalias(f.Type()).Underlying().(type) {
	case *types.Pointer, *types.Interface:
		if !c.eng.nullable[key] {
			st.assume(mkNot(mkEq(r, intLit(0))))
			c.trustedUsed["non-nil external field "+key] = true
		}
		// static type gives the dynamic type of non-nil pointer fields
		if _, ok := types.Unalias(f.Type()).Underlying().(*types.Pointer); ok {
			st.assume(mkImplies(mkNot(mkEq(r, intLit(0))), mkEq(mk("dyntype", "TypeTag", r), c.typeTag(f.Type()))))
		}
	}
}

func (c *FnCtx) typeTag(t types.Type) *Term {
	return c.smt.tag(types.TypeString(types.Unalias(t), func(p *types.Package) string { return shortPkg(p) }))
}

func (c *FnCtx) evalSelector(st *State, x *ast.SelectorExpr) *Term {
	if sel, ok := c.info.Selections[x]; ok {
		switch sel.Kind() {
		case types.FieldVal:
			v := c.eval(st, x.X)
			t := c.typeOf(x.X)
			return c.walkFieldPath(st, v, t, sel.Index(), x)
		case types.MethodVal:
			c.unsupportedf(x, "method value %s", c.exprText(x))
		}
	}
	// package-qualified identifier
	obj := c.info.ObjectOf(x.Sel)
	switch o := obj.(type) {
	case *types.Const:
		return c.constTerm(o.Val(), o.Type())
	case *types.Var:
		return c.readVar(st, o, x)
	case *types.Func:
		return leaf("func:"+funcKey(o), SInt)
	}
	c.unsupportedf(x, "selector %s", c.exprText(x))
	return nil
}

func (c *FnCtx) walkFieldPath(st *State, v *Term, t types.Type, path []int, site ast.Node) *Term {
	for _, idx := range path {
		s := structOf(deref(t))
		if s == nil {
			c.unsupportedf(site, "field selection on non-struct %s", t)
		}
		f := s.Field(idx)
		v = c.selectField(st, v, t, f, idx, site)
		t = f.Type()
	}
	return v
}

func (c *FnCtx) evalUnary(st *State, x *ast.UnaryExpr) *Term {
	switch x.Op {
	case token.NOT:
		return mkNot(c.eval(st, x.X))
	case token.SUB:
		return mk("-", SInt, c.eval(st, x.X))
	case token.ADD:
		return c.eval(st, x.X)
	case token.AND:
		return c.addressOf(st, x.X, x)
	}
	c.unsupportedf(x, "unary operator %s", x.Op)
	return nil
}

// addressOf evaluates &e.
func (c *FnCtx) addressOf(st *State, e ast.Expr, site ast.Node) *Term {
	switch y := e.(type) {
	case *ast.ParenExpr:
		return c.addressOf(st, y.X, site)
	case *ast.CompositeLit:
		return c.evalCompositeLit(st, y, true)
	case *ast.Ident:
		v, _ := c.info.ObjectOf(y).(*types.Var)
		if v == nil {
			break
		}
		if c.isGlobal(v) {
			c.unsupportedf(site, "address of global %s", v.Name())
		}
		if !c.boxed[v] {
			c.unsupportedf(site, "internal: address of unboxed local %s", v.Name())
		}
		return st.vars[v].withGo(types.NewPointer(v.Type()))
	case *ast.SelectorExpr:
		// &x.f : pointer to a field. Modelled as a fresh cell holding the current value (read-only use).
		val := c.eval(st, y)
		c.assumptionsUsed["&x.f modelled as a pointer to a copy of the field (no writes through it)"] = true
		r := c.allocRef(st, "fieldptr")
		c.storeCell(st, r, c.typeOf(y), val)
		st.assume(mkEq(mk("dyntype", "TypeTag", r), c.typeTag(types.NewPointer(c.typeOf(y)))))
		return r
	case *ast.IndexExpr:
		val := c.eval(st, y)
		c.assumptionsUsed["&s[i] modelled as a pointer to a copy of the element (no writes through it)"] = true
		r := c.allocRef(st, "elemptr")
		c.storeCell(st, r, c.typeOf(y), val)
		st.assume(mkEq(mk("dyntype", "TypeTag", r), c.typeTag(types.NewPointer(c.typeOf(y)))))
		return r
	case *ast.StarExpr:
		return c.eval(st, y.X)
	}
	c.unsupportedf(site, "address of %T", e)
	return nil
}

func isStringType(t types.Type) bool {
	b, ok := types.Unalias(t).Underlying().(*types.Basic)
	return ok && b.Info()&types.IsString != 0
}

func (c *FnCtx) evalBinary(st *State, x *ast.BinaryExpr) *Term {
	switch x.Op {
	case token.LAND:
		a := c.eval(st, x.X)
		st.guards = append(st.guards, a)
		b := c.eval(st, x.Y)
		st.guards = st.guards[:len(st.guards)-1]
		return mkAnd(a, b)
	case token.LOR:
		a := c.eval(st, x.X)
		st.guards = append(st.guards, mkNot(a))
		b := c.eval(st, x.Y)
		st.guards = st.guards[:len(st.guards)-1]
		return mkOr(a, b)
	}
	a := c.eval(st, x.X)
	b := c.eval(st, x.Y)
	return c.binop(st, x.Op, a, b, c.typeOf(x.X), c.typeOf(x.Y), x)
}

func (c *FnCtx) binop(st *State, op token.Token, a, b *Term, ta, tb types.Type, site ast.Node) *Term {
	switch op {
	case token.EQL, token.NEQ:
		var r *Term
		switch {
		case c.ts.isSliceSort(a.Sort) || c.ts.isSliceSort(b.Sort):
			if !c.ts.isSliceSort(a.Sort) {
				a, b, ta, tb = b, a, tb, ta
			}
			// comparison with nil only
			if isNilSliceTerm(b) || isUntypedNil(tb) {
				r = c.sliceNil(a)
			} else if isNilSliceTerm(a) || isUntypedNil(ta) {
				r = c.sliceNil(b)
			} else {
				c.unsupportedf(site, "slice comparison")
			}
		default:
			if a.Sort != b.Sort {
				c.unsupportedf(site, "comparison of %s and %s", a.Sort, b.Sort)
			}
			r = mkEq(a, b)
		}
		if op == token.NEQ {
			return mkNot(r)
		}
		return r
	case token.LSS, token.LEQ, token.GTR, token.GEQ:
		if a.Sort != SInt {
			c.unsupportedf(site, "ordered comparison on %s", a.Sort)
		}
		m := map[token.Token]string{token.LSS: "<", token.LEQ: "<=", token.GTR: ">", token.GEQ: ">="}
		return mk(m[op], SBool, a, b)
	case token.ADD:
		if a.Sort == SStr {
			return mk("sconcat", SStr, a, b)
		}
		return mkAdd(a, b)
	case token.SUB:
		return mkSub(a, b)
	case token.MUL:
		return mk("*", SInt, a, b)
	case token.QUO:
		c.oblige(st, "safe:div", site, "", "division by zero", mkNot(mkEq(b, intLit(0))))
		return c.goDiv(a, b)
	case token.REM:
		c.oblige(st, "safe:div", site, "", "division by zero", mkNot(mkEq(b, intLit(0))))
		return mkSub(a, mk("*", SInt, b, c.goDiv(a, b)))
	case token.SHR, token.SHL:
		// shifts by a constant are division / multiplication by a power of two (mathematical integers, non-negative operand
		// for >>: Go's >> on negative signed values rounds towards minus infinity, like SMT div)
		if len(b.Args) == 0 {
			if k, err := strconv.Atoi(b.Op); err == nil && k >= 0 && k < 62 {
				p := intLit(int64(1) << uint(k))
				if op == token.SHR {
					return mk("div", SInt, a, p)
				}
				return mk("*", SInt, a, p)
			}
		}
		fallthrough
	case token.AND, token.OR, token.XOR, token.AND_NOT:
		// bit operations are not interpreted: an uninterpreted function of the operands (sound, imprecise)
		name := "bitop_" + map[token.Token]string{token.SHR: "shr", token.SHL: "shl", token.AND: "and", token.OR: "or", token.XOR: "xor", token.AND_NOT: "andnot"}[op]
		c.smt.fun(name, []string{SInt, SInt}, SInt)
		c.assumptionsUsed["bit operations are uninterpreted functions of their operands"] = true
		return mk(name, SInt, a, b)
	}
	c.unsupportedf(site, "binary operator %s", op)
	return nil
}

// goDiv: Go's truncated division expressed with SMT's floor-style div.
func (c *FnCtx) goDiv(a, b *Term) *Term {
	// for a >= 0, b > 0 this is (div a b); general case via ite
	d := mk("div", SInt, a, b)
	negA := mkLt(a, intLit(0))
	exact := mkEq(mk("mod", SInt, a, b), intLit(0))
	adj := mkIte(mkLt(b, intLit(0)), mkSub(d, intLit(1)), mkAdd(d, intLit(1)))
	return mkIte(mkAnd(negA, mkNot(exact)), adj, d)
}

func isUntypedNil(t types.Type) bool {
	b, ok := t.(*types.Basic)
	return ok && b.Kind() == types.UntypedNil
}

func isNilSliceTerm(t *Term) bool {
	return strings.HasPrefix(t.Op, "mk_Slice_") && len(t.Args) == 3 && isLit(t.Args[2], "true")
}

func (c *FnCtx) evalIndex(st *State, x *ast.IndexExpr) *Term {
	xt := c.typeOf(x.X)
	if xt == nil {
		c.unsupportedf(x, "index of untyped expression")
	}
	switch u := types.Unalias(xt).Underlying().(type) {
	case *types.Map:
		m := c.eval(st, x.X)
		k := c.eval(st, x.Index)
		v, _ := c.mapLookup(st, m, u, k)
		return v
	case *types.Slice, *types.Array:
		s := c.eval(st, x.X)
		i := c.eval(st, x.Index)
		c.oblige(st, "safe:idx", x, "", "index in range: "+c.exprText(x), mkAnd(mkLe(intLit(0), i), mkLt(i, c.sliceLen(s))))
		st.assume(mkAnd(mkLe(intLit(0), i), mkLt(i, c.sliceLen(s))))
		el := c.sliceAt(s, i)
		c.extElemFacts(st, el, elemType(xt))
		return el
	case *types.Basic:
		if isStringType(xt) {
			s := c.eval(st, x.X)
			i := c.eval(st, x.Index)
			c.oblige(st, "safe:idx", x, "", "string index in range: "+c.exprText(x), mkAnd(mkLe(intLit(0), i), mkLt(i, mk("slen", SInt, s))))
			st.assume(mkAnd(mkLe(intLit(0), i), mkLt(i, mk("slen", SInt, s))))
			return mk("sbyte", SInt, s, i)
		}
	case *types.Pointer:
		// pointer to array
	}
	c.unsupportedf(x, "index expression on %s", xt)
	return nil
}

// mapLookup returns (value, present). Reading a nil map yields the zero value.
func (c *FnCtx) mapLookup(st *State, m *Term, mt *types.Map, k *Term) (*Term, *Term) {
	dom := c.mapDom(st, m, mt)
	val := c.mapVal(st, m, mt)
	// the nil map (reference 0) has an empty domain in every heap version (see heapArr/heapHavoc)
	present := mkSelect(dom, k)
	ks, vs := c.mapSorts(mt)
	fn := "mapget_" + mangleSort(ks) + "_" + mangleSort(vs)
	c.smt.fun(fn, []string{dom.Sort, val.Sort, ks}, vs)
	zero := c.zero(mt.Elem())
	c.smt.axiom(fn+"_def", fmt.Sprintf("(forall ((d %s) (v %s) (k %s)) (! (= (%s d v k) (ite (select d k) (select v k) %s)) :pattern ((%s d v k))))", dom.Sort, val.Sort, ks, fn, zero, fn), false, fn)
	v := mk(fn, vs, dom, val, k)
	return v.withGo(mt.Elem()), present
}

func (c *FnCtx) mapStore(st *State, m *Term, mt *types.Map, k, v *Term, site ast.Node) {
	c.oblige(st, "safe:mapw", site, "", "assignment to entry in nil map: "+c.exprText(site), mkNot(mkEq(m, intLit(0))))
	st.assume(mkNot(mkEq(m, intLit(0))))
	ks, vs := c.mapSorts(mt)
	dom := c.mapDom(st, m, mt)
	val := c.mapVal(st, m, mt)
	c.heapWrite(st, mapDomName(ks, vs), arraySort(ks, SBool), m, mkStore(dom, k, tTrue))
	c.heapWrite(st, mapValName(ks, vs), arraySort(ks, vs), m, mkStore(val, k, v))
	// bridge for E-matching: a read of the updated map is the written value or a read of the map before the update
	// (a consequence of the definition of mapget; it makes facts stated over the old version applicable)
	fn := "mapget_" + mangleSort(ks) + "_" + mangleSort(vs)
	if c.smt.declared[fn] && isLit(st.guard(), "true") {
		c.quantN++
		kv := leaf(fmt.Sprintf("mk!%d", c.quantN), ks)
		nd, nv := c.mapDom(st, m, mt), c.mapVal(st, m, mt)
		newRead := mk(fn, vs, nd, nv, kv)
		oldRead := mk(fn, vs, dom, val, kv)
		st.pc = append(st.pc, mkForall([]Bound{{kv.Op, ks}}, mkEq(newRead, mkIte(mkEq(kv, k), v, oldRead)), []*Term{newRead}))
		st.pc = append(st.pc, mkForall([]Bound{{kv.Op, ks}}, mkEq(mkSelect(nd, kv), mkOr(mkEq(kv, k), mkSelect(dom, kv))), []*Term{mkSelect(nd, kv)}))
	}
}

func (c *FnCtx) evalSliceExpr(st *State, x *ast.SliceExpr) *Term {
	xt := c.typeOf(x.X)
	s := c.eval(st, x.X)
	var lo, hi *Term
	if x.Low != nil {
		lo = c.eval(st, x.Low)
	} else {
		lo = intLit(0)
	}
	if isStringType(xt) {
		n := mk("slen", SInt, s)
		if x.High != nil {
			hi = c.eval(st, x.High)
		} else {
			hi = n
		}
		ok := mkAnd(mkLe(intLit(0), lo), mkLe(lo, hi), mkLe(hi, n))
		c.oblige(st, "safe:slice", x, "", "slice bounds in range: "+c.exprText(x), ok)
		st.assume(ok)
		return mk("sslice", SStr, s, lo, hi)
	}
	if c.ts.isSliceSort(s.Sort) {
		n := c.sliceLen(s)
		if x.High != nil {
			hi = c.eval(st, x.High)
		} else {
			hi = n
		}
		ok := mkAnd(mkLe(intLit(0), lo), mkLe(lo, hi), mkLe(hi, n))
		c.assumptionsUsed["slice capacity not modelled: s[a:b] checked against len(s)"] = true
		c.oblige(st, "safe:slice", x, "", "slice bounds in range: "+c.exprText(x), ok)
		st.assume(ok)
		if !isLit(lo, "0") {
			// general sub-slice: a named sequence defined elementwise
			r := c.smt.freshConst("sub", s.Sort)
			st.assume(mkEq(mk("rawlen_"+s.Sort, SInt, r), mkSub(hi, lo)))
			st.assume(mkNot(mk("rawnil_"+s.Sort, SBool, r)))
			c.quantN++
			iv := leaf(fmt.Sprintf("sb!%d", c.quantN), SInt)
			st.assume(mkForall([]Bound{{iv.Op, SInt}}, mkImplies(mkAnd(mkLe(intLit(0), iv), mkLt(iv, mkSub(hi, lo))), mkEq(c.sliceAt(r, iv), c.sliceAt(s, mkAdd(lo, iv)))), []*Term{c.sliceAt(r, iv)}))
			c.quantN++
			jv := leaf(fmt.Sprintf("sb!%d", c.quantN), SInt)
			st.assume(mkForall([]Bound{{jv.Op, SInt}}, mkImplies(mkAnd(mkLe(lo, jv), mkLt(jv, hi)), mkEq(c.sliceAt(s, jv), c.sliceAt(r, mkSub(jv, lo)))), []*Term{c.sliceAt(s, jv)}))
			return r
		}
		return c.mkSlice(s.Sort, hi, c.sliceArr(s))
	}
	c.unsupportedf(x, "slice expression on %s", xt)
	return nil
}

func (c *FnCtx) evalTypeAssert(st *State, x *ast.TypeAssertExpr) (*Term, *Term) {
	v := c.eval(st, x.X)
	target := c.typeOf(x.Type)
	return c.typeAssert(st, v, target, x)
}

func (c *FnCtx) typeAssert(st *State, v *Term, target types.Type, site ast.Node) (*Term, *Term) {
	tu := types.Unalias(target)
	if _, isIface := tu.Underlying().(*types.Interface); isIface {
		fn := "implements_" + sanitize(types.TypeString(tu, func(p *types.Package) string { return shortPkg(p) }))
		c.smt.fun(fn, []string{"TypeTag"}, SBool)
		ok := mkAnd(mkNot(mkEq(v, intLit(0))), mk(fn, SBool, mk("dyntype", "TypeTag", v)))
		return mkIte(ok, v, intLit(0)).withGo(target), ok
	}
	ok := mkEq(mk("dyntype", "TypeTag", v), c.typeTag(target))
	srt := c.ts.sortOf(target)
	if srt == SInt && isRefLike(target) {
		// pointer (or other reference) held directly in the interface
		return mkIte(ok, v, intLit(0)).withGo(target), ok
	}
	// boxed value
	un := c.unboxFn(srt)
	return mkIte(ok, mk(un, srt, v), c.zero(target)).withGo(target), ok
}

func isRefLike(t types.Type) bool {
	switch types.Unalias(t).Underlying().(type) {
	case *types.Pointer, *types.Map, *types.Chan, *types.Signature, *types.Interface:
		return true
	case *types.Struct:
		return isExtStruct(t)
	}
	return false
}

func (c *FnCtx) unboxFn(srt string) string {
	un := "unbox_" + mangleSort(srt)
	bx := "box_" + mangleSort(srt)
	c.smt.fun(un, []string{SInt}, srt)
	c.smt.fun(bx, []string{srt}, SInt)
	c.smt.axiom(bx+"_inv", fmt.Sprintf("(forall ((v %s)) (! (and (= (%s (%s v)) v) (not (= (%s v) 0))) :pattern ((%s v))))", srt, un, bx, bx, bx), false, bx)
	return un
}

// toInterface converts a value of static type from to an interface value.
func (c *FnCtx) toInterface(st *State, v *Term, from types.Type) *Term {
	if from == nil {
		return v
	}
	fu := types.Unalias(from)
	if _, ok := fu.Underlying().(*types.Interface); ok {
		return v
	}
	if b, ok := fu.(*types.Basic); ok && b.Kind() == types.UntypedNil {
		return intLit(0)
	}
	if isRefLike(from) && c.ts.sortOf(from) == SInt {
		if _, isPtr := fu.Underlying().(*types.Pointer); isPtr {
			st.assume(mkImplies(mkNot(mkEq(v, intLit(0))), mkEq(mk("dyntype", "TypeTag", v), c.typeTag(from))))
		}
		return v
	}
	srt := c.ts.sortOf(from)
	c.unboxFn(srt)
	b := mk("box_"+mangleSort(srt), SInt, v)
	st.assume(mkEq(mk("dyntype", "TypeTag", b), c.typeTag(from)))
	return b
}

// convertTo adapts a value to the target static type at assignment/call boundaries.
func (c *FnCtx) convertTo(st *State, v *Term, from, to types.Type) *Term {
	if to == nil {
		return v
	}
	if from != nil && isUntypedNil(from) {
		return c.zero(to)
	}
	if _, ok := types.Unalias(to).Underlying().(*types.Interface); ok {
		if _, isTP := types.Unalias(to).(*types.TypeParam); !isTP {
			r := c.toInterface(st, v, from).withGo(to)
			c.ifaceSnapshot(st, r, from, to)
			return r
		}
	}
	return v
}

// ifaceSnapshot: when a pointer to a repository struct is converted to a repository interface, the interface's observer
// functions take the values the accessor methods return now (accessor contract: `ensures result == <expression over the
// receiver>`). Sound for objects whose fields are not written after the conversion (the types concerned are @immutable).
func (c *FnCtx) ifaceSnapshot(st *State, ref *Term, from, to types.Type) {
	if from == nil || !isPointer(from) || !isRepoStruct(deref(from)) {
		return
	}
	itn, ok := types.Unalias(to).(*types.Named)
	if !ok || !isRepoPkg(itn.Obj().Pkg()) {
		return
	}
	it, _ := itn.Underlying().(*types.Interface)
	if it == nil {
		return
	}
	for i := 0; i < it.NumMethods(); i++ {
		m := it.Method(i)
		obj, _, _ := types.LookupFieldOrMethod(from, true, m.Pkg(), m.Name())
		fn, ok := obj.(*types.Func)
		if !ok {
			continue
		}
		key := funcKey(fn)
		ct := c.eng.contracts[key]
		fi := c.eng.funcs[key]
		if ct == nil || fi == nil || len(ct.Ensures) == 0 {
			continue
		}
		en := ct.Ensures[0].Expr
		if !(en.Kind == "binary" && en.Name == "==" && en.Args[0].Kind == "ident" && en.Args[0].Name == "result") {
			continue
		}
		fsig := fi.Obj.Type().(*types.Signature)
		if fsig.Params().Len() != 0 || fsig.Results().Len() != 1 || fsig.Recv() == nil {
			continue
		}
		env := map[string]*Term{fsig.Recv().Name(): ref.withGo(fsig.Recv().Type())}
		val := c.specEval(st, en.Args[1], env, nil)
		ikey := funcKey(m)
		rs := c.pureApp(st, ikey, m.Type().(*types.Signature), ref, nil)
		if len(rs) == 1 && rs[0].Sort == val.Sort {
			st.assume(mkImplies(mkNot(mkEq(ref, intLit(0))), mkEq(rs[0], val)))
			c.assumptionsUsed["observer functions of "+itn.Obj().Name()+" snapshot the accessor results at the conversion (objects of "+deref(from).String()+" are not written afterwards)"] = true
		}
	}
}

func (c *FnCtx) evalCompositeLit(st *State, x *ast.CompositeLit, addr bool) *Term {
	t := c.typeOf(x)
	if t == nil {
		c.unsupportedf(x, "composite literal without type")
	}
	if addr {
		// &T{...}: the literal's own type is T
	}
	switch u := types.Unalias(t).Underlying().(type) {
	case *types.Struct:
		if isRepoStruct(t) {
			vals := make([]*Term, u.NumFields())
			for i := range vals {
				vals[i] = c.zero(u.Field(i).Type())
			}
			for i, el := range x.Elts {
				if kv, ok := el.(*ast.KeyValueExpr); ok {
					name := kv.Key.(*ast.Ident).Name
					idx := fieldIndex(u, name)
					v := c.eval(st, kv.Value)
					vals[idx] = c.convertTo(st, v, c.typeOf(kv.Value), u.Field(idx).Type())
				} else {
					v := c.eval(st, el)
					vals[i] = c.convertTo(st, v, c.typeOf(el), u.Field(i).Type())
				}
			}
			srt := c.ts.sortOf(t)
			var val *Term
			if len(vals) == 0 {
				val = leaf("mk_"+srt, srt)
			} else {
				val = mk("mk_"+srt, srt, vals...)
			}
			val = val.withGo(t)
			if addr {
				r := c.allocRef(st, sanitize(srt))
				c.storeStruct(st, r, t, val)
				st.assume(mkEq(mk("dyntype", "TypeTag", r), c.typeTag(types.NewPointer(t))))
				return r.withGo(types.NewPointer(t))
			}
			return val
		}
		// external struct literal: opaque value with known fields
		owner := ownerNamed(t)
		if owner == nil {
			c.unsupportedf(x, "anonymous external struct literal")
		}
		v := c.smt.freshConst("ext_"+owner.Obj().Name(), SInt)
		if addr {
			st.assume(mkNot(mkEq(v, intLit(0))))
		}
		set := map[int]bool{}
		for i, el := range x.Elts {
			idx := i
			var valE ast.Expr = el
			if kv, ok := el.(*ast.KeyValueExpr); ok {
				idx = fieldIndex(u, kv.Key.(*ast.Ident).Name)
				valE = kv.Value
			}
			fv := c.convertTo(st, c.eval(st, valE), c.typeOf(valE), u.Field(idx).Type())
			st.assume(mkEq(c.extField(v, owner, u.Field(idx)), fv))
			set[idx] = true
		}
		for i := 0; i < u.NumFields(); i++ {
			if !set[i] && u.Field(i).Exported() {
				st.assume(mkEq(c.extField(v, owner, u.Field(i)), c.zero(u.Field(i).Type())))
			}
		}
		if addr {
			return v.withGo(types.NewPointer(t))
		}
		return v.withGo(t)
	case *types.Slice:
		srt := c.ts.sortOf(t)
		elem := c.ts.elemSort(srt)
		arrName := c.smt.freshConst("litarr", arraySort(SInt, elem))
		var arr *Term = arrName
		var elems []*Term
		for i, el := range x.Elts {
			if _, ok := el.(*ast.KeyValueExpr); ok {
				c.unsupportedf(x, "keyed slice literal")
			}
			var v *Term
			if cl, ok := el.(*ast.CompositeLit); ok && cl.Type == nil {
				v = c.evalCompositeLit(st, cl, isPointer(u.Elem()))
			} else {
				v = c.convertTo(st, c.eval(st, el), c.typeOf(el), u.Elem())
			}
			arr = mkStore(arr, intLit(int64(i)), v)
			elems = append(elems, v)
		}
		lit := c.nameSlice(st, c.mkSlice(srt, intLit(int64(len(x.Elts))), arr), "lit")
		for i, v := range elems {
			st.pc = append(st.pc, mkEq(c.sliceAt(lit, intLit(int64(i))), v))
		}
		if addr {
			// &S{...} for a (named) slice type: a fresh cell holding the slice value
			r := c.allocRef(st, "sliceptr")
			c.storeCell(st, r, t, lit.withGo(t))
			return r.withGo(types.NewPointer(t))
		}
		return lit.withGo(t)
	case *types.Map:
		r := c.newMap(st, u)
		for _, el := range x.Elts {
			kv := el.(*ast.KeyValueExpr)
			k := c.eval(st, kv.Key)
			var v *Term
			if cl, ok := kv.Value.(*ast.CompositeLit); ok && cl.Type == nil {
				v = c.evalCompositeLit(st, cl, isPointer(u.Elem()))
			} else {
				v = c.convertTo(st, c.eval(st, kv.Value), c.typeOf(kv.Value), u.Elem())
			}
			c.mapStore(st, r, u, k, v, x)
		}
		return r.withGo(t)
	}
	c.unsupportedf(x, "composite literal of %s", t)
	return nil
}

func (c *FnCtx) newMap(st *State, mt *types.Map) *Term {
	ks, vs := c.mapSorts(mt)
	r := c.allocRef(st, "map")
	emptyDom := mk("(as const "+arraySort(ks, SBool)+")", arraySort(ks, SBool), tFalse)
	c.heapWrite(st, mapDomName(ks, vs), arraySort(ks, SBool), r, emptyDom)
	// values of absent keys are irrelevant; keep the old value array
	_ = c.mapVal(st, r, mt)
	return r
}

// extElemFacts: elements of slices of AST nodes / type-checker objects are not nil (well-formed library data).
func (c *FnCtx) extElemFacts(st *State, el *Term, et types.Type) {
	if et == nil {
		return
	}
	if isExtPointer(et) || isExtInterface(et) {
		st.assume(mkNot(mkEq(el, intLit(0))))
		c.trustedUsed["elements of slices of external pointers/interfaces (AST nodes, type-checker objects) are not nil"] = true
		if isExtPointer(et) {
			st.assume(mkEq(mk("dyntype", "TypeTag", el), c.typeTag(et)))
		}
	}
}

func isExtInterface(t types.Type) bool {
	n, ok := types.Unalias(t).(*types.Named)
	if !ok {
		return false
	}
	if _, ok := n.Underlying().(*types.Interface); !ok {
		return false
	}
	return n.Obj().Pkg() != nil && !isRepoPkg(n.Obj().Pkg())
}
