package main

import (
	"fmt"
	"go/ast"
	"go/types"
	"strings"
)

// evalCall evaluates a call expression and returns its results.
func (c *FnCtx) evalCall(st *State, call *ast.CallExpr) []*Term {
	res := c.evalCall1(st, call)
	if name := c.callOrd[call]; name != "" {
		// remembered for $ret("pkg.F#k") / $called("pkg.F#k") in later call-site assertions and postconditions
		if st.calls == nil {
			st.calls = map[string][]*Term{}
		}
		if res == nil {
			res = []*Term{}
		}
		st.calls[name] = res
	}
	return res
}

func (c *FnCtx) evalCall1(st *State, call *ast.CallExpr) []*Term {
	// conversion?
	if tv, ok := c.info.Types[call.Fun]; ok && tv.IsType() {
		return []*Term{c.evalConversion(st, call, tv.Type)}
	}
	if name := c.callOrd[call]; name != "" && c.contract != nil {
		if ls := c.contract.Inspects[name]; ls != nil {
			for k, a := range ls.Asserts {
				env := map[string]*Term{}
				if strings.Contains(a.Text, "$arg") {
					// $arg0, $arg1, ...: the values of the call's arguments
					for i, ae := range call.Args {
						if _, isLit := ast.Unparen(ae).(*ast.FuncLit); isLit {
							continue
						}
						v := c.eval(st, ae)
						if isUntypedNil(c.typeOf(ae)) {
							// a literal nil takes the parameter's type
							if sig, ok := c.typeOf(call.Fun).Underlying().(*types.Signature); ok && sig.Params().Len() > 0 {
								k := i
								if k >= sig.Params().Len() {
									k = sig.Params().Len() - 1
								}
								v = c.zero(sig.Params().At(k).Type())
							}
						}
						env[fmt.Sprintf("$arg%d", i)] = v
					}
				}
				if strings.Contains(a.Text, "$recv") {
					// $recv: the receiver of a method call
					if f, ok := ast.Unparen(call.Fun).(*ast.SelectorExpr); ok {
						if sel, ok := c.info.Selections[f]; ok && sel.Kind() == types.MethodVal {
							env["$recv"] = c.eval(st, f.X)
						}
					}
				}
				g := c.specEvalAt(st, a.Expr, env, c.pre, call)
				c.oblige(st, "assert", call, fmt.Sprintf("%s.%d", name, k+1), a.Text, g)
				st.assume(g)
			}
		}
	}
	fun := ast.Unparen(call.Fun)
	// strip explicit instantiation
	switch f := fun.(type) {
	case *ast.IndexExpr:
		if _, ok := c.info.Instances[identOf(f.X)]; ok {
			fun = f.X
		}
	case *ast.IndexListExpr:
		fun = f.X
	}
	switch f := fun.(type) {
	case *ast.Ident:
		switch o := c.info.ObjectOf(f).(type) {
		case *types.Builtin:
			return c.evalBuiltin(st, call, o.Name())
		case *types.Func:
			return c.callStatic(st, call, o, nil, nil)
		case *types.Var:
			return c.callFuncValue(st, call, c.readVar(st, o, f), o.Name())
		}
	case *ast.SelectorExpr:
		if sel, ok := c.info.Selections[f]; ok {
			switch sel.Kind() {
			case types.MethodVal:
				fn := sel.Obj().(*types.Func)
				// shared state (C11): a method called on an object held in a package-level variable must be known to be
				// read-only - a library method with a contract entry that is not `impure`, or sync.Once.Do; a repository
				// method is checked through its own `assigns` clause
				if g := c.rootGlobal(f.X); g != nil && !c.allowGlobalWrite && fn.Pkg() != nil && !isRepoPkg(fn.Pkg()) {
					key := c.eng.canonicalMethodKey(funcKey(fn), c.typeOf(f.X))
					ct := c.eng.contracts[key]
					if ct == nil {
						ct = c.eng.contracts[funcKey(fn)]
					}
					isOnce := funcKey(fn) == "sync.Once.Do"
					if !isOnce && (ct == nil || ct.Impure) {
						c.oblige(st, "frame:global", call, "", "method "+fn.Name()+" (not known to be read-only) called on package-level variable "+g.Name(), tFalse)
					}
				}
				recv := c.eval(st, f.X)
				recvT := c.typeOf(f.X)
				// walk embedded path to the receiver (promoted methods of external types keep the outer receiver)
				idx := sel.Index()
				if on := ownerNamed(recvT); on != nil && !isRepoPkg(on.Obj().Pkg()) {
					idx = nil
				}
				if len(idx) > 1 {
					recv = c.walkFieldPath(st, recv, recvT, idx[:len(idx)-1], f)
					recvT = recv.GoT
				}
				return c.callStatic(st, call, fn, recv, recvT)
			case types.FieldVal:
				// call of a func-typed field, e.g. pass.Report(...)
				owner := ownerNamed(c.typeOf(f.X))
				if owner != nil && !isRepoPkg(owner.Obj().Pkg()) {
					recv := c.eval(st, f.X)
					if isPointer(c.typeOf(f.X)) {
						c.nonNil(st, recv, f, c.exprText(f.X))
					}
					key := owner.Obj().Pkg().Path() + "." + owner.Obj().Name() + "." + f.Sel.Name
					sig, _ := c.typeOf(f).Underlying().(*types.Signature)
					if !c.eng.nullable[key] {
						c.trustedUsed["non-nil external func field "+key] = true
					} else {
						fv := c.eval(st, f)
						c.nonNil(st, fv, f, c.exprText(f))
					}
					return c.callByKey(st, call, key, sig, recv, c.typeOf(f.X), call.Args, false)
				}
				fv := c.eval(st, f)
				return c.callFuncValue(st, call, fv, f.Sel.Name)
			}
		}
		if fn, ok := c.info.ObjectOf(f.Sel).(*types.Func); ok {
			return c.callStatic(st, call, fn, nil, nil)
		}
		if v, ok := c.info.ObjectOf(f.Sel).(*types.Var); ok {
			return c.callFuncValue(st, call, c.readVar(st, v, f), v.Name())
		}
	case *ast.FuncLit:
		c.unsupportedf(call, "immediately invoked function literal")
	}
	c.unsupportedf(call, "call of %T", fun)
	return nil
}

func identOf(e ast.Expr) *ast.Ident {
	switch x := e.(type) {
	case *ast.Ident:
		return x
	case *ast.SelectorExpr:
		return x.Sel
	}
	return nil
}

func (c *FnCtx) evalConversion(st *State, call *ast.CallExpr, to types.Type) *Term {
	arg := call.Args[0]
	v := c.eval(st, arg)
	from := c.typeOf(arg)
	ts, fs := c.ts.sortOf(to), v.Sort
	if _, ok := types.Unalias(to).Underlying().(*types.Interface); ok {
		return c.toInterface(st, v, from).withGo(to)
	}
	if ts == fs {
		return v.withGo(to)
	}
	// string <-> []byte and friends: uninterpreted injective-free conversion
	fn := "conv_" + mangleSort(fs) + "_to_" + mangleSort(ts)
	c.smt.fun(fn, []string{fs}, ts)
	if fs == SStr && c.ts.isSliceSort(ts) {
		c.assumptionsUsed["[]byte(s)/string(b) conversions are uninterpreted functions"] = true
	}
	return mk(fn, ts, v).withGo(to)
}

func (c *FnCtx) evalBuiltin(st *State, call *ast.CallExpr, name string) []*Term {
	switch name {
	case "len":
		x := c.eval(st, call.Args[0])
		xt := c.typeOf(call.Args[0])
		return []*Term{c.lenOf(st, x, xt, call)}
	case "cap":
		x := c.eval(st, call.Args[0])
		r := c.smt.freshConst("cap", SInt)
		st.assume(mkLe(c.sliceLen(x), r))
		return []*Term{r}
	case "append":
		if why := c.borrowedReslice(call.Args[0]); why != "" {
			// slice capacity and backing arrays are not modelled: appending to a reslice of a slice the function did not create
			// writes into the owner's backing array (in-place filtering of pass.Files, seed C11-6) - shared state (C11)
			c.oblige(st, "frame:alias", call, "", "append to "+why+": the elements are written into a backing array this function does not own", tFalse)
		}
		s := c.eval(st, call.Args[0])
		st0 := s
		if call.Ellipsis.IsValid() {
			if len(call.Args) != 2 {
				c.unsupportedf(call, "append with ellipsis and %d args", len(call.Args))
			}
			o := c.eval(st, call.Args[1])
			if o.Sort == SStr {
				c.unsupportedf(call, "append(bytes, string...)")
			}
			return []*Term{c.sliceConcat(st, st0, o).withGo(c.typeOf(call))}
		}
		elemT := types.Unalias(c.typeOf(call)).Underlying().(*types.Slice).Elem()
		n := c.sliceLen(s)
		arr := c.sliceArr(s)
		var vs []*Term
		for i, a := range call.Args[1:] {
			v := c.convertTo(st, c.eval(st, a), c.typeOf(a), elemT)
			arr = mkStore(arr, mkAdd(n, intLit(int64(i))), v)
			vs = append(vs, v)
		}
		r := c.nameSlice(st, c.mkSlice(s.Sort, mkAdd(n, intLit(int64(len(call.Args)-1))), arr), "app")
		for i, v := range vs {
			st.assume(mkEq(c.sliceAt(r, mkAdd(n, intLit(int64(i)))), v))
		}
		c.appendContainsFacts(st, r, s, vs)
		return []*Term{r.withGo(c.typeOf(call))}
	case "make":
		t := c.typeOf(call.Args[0])
		switch u := types.Unalias(t).Underlying().(type) {
		case *types.Map:
			return []*Term{c.newMap(st, u).withGo(t)}
		case *types.Slice:
			srt := c.ts.sortOf(t)
			n := intLit(0)
			if len(call.Args) > 1 {
				n = c.eval(st, call.Args[1])
				c.oblige(st, "safe:make", call, "", "make length non-negative", mkLe(intLit(0), n))
			}
			if len(call.Args) > 2 {
				cp := c.eval(st, call.Args[2])
				c.oblige(st, "safe:make", call, "", "make: len <= cap", mkLe(n, cp))
			}
			// all elements zero
			elem := c.ts.elemSort(srt)
			zero := c.zero(u.Elem())
			arr := mk("(as const "+arraySort(SInt, elem)+")", arraySort(SInt, elem), zero)
			return []*Term{c.mkSlice(srt, n, arr).withGo(t)}
		}
		c.unsupportedf(call, "make(%s)", t)
	case "new":
		t := c.typeOf(call.Args[0])
		r := c.allocRef(st, "new")
		c.storeCell(st, r, t, c.zero(t))
		return []*Term{r.withGo(types.NewPointer(t))}
	case "delete":
		m := c.eval(st, call.Args[0])
		k := c.eval(st, call.Args[1])
		mt := types.Unalias(c.typeOf(call.Args[0])).Underlying().(*types.Map)
		ks, vs := c.mapSorts(mt)
		dom := c.mapDom(st, m, mt)
		st.guards = append(st.guards, mkNot(mkEq(m, intLit(0))))
		c.heapWrite(st, mapDomName(ks, vs), arraySort(ks, SBool), m, mkStore(dom, k, tFalse))
		st.guards = st.guards[:len(st.guards)-1]
		return nil
	case "panic":
		c.oblige(st, "safe:panic", call, "", "explicit panic reachable: "+c.exprText(call), tFalse)
		st.assume(tFalse)
		return nil
	case "min", "max":
		a := c.eval(st, call.Args[0])
		for _, x := range call.Args[1:] {
			b := c.eval(st, x)
			if name == "min" {
				a = mkIte(mkLe(a, b), a, b)
			} else {
				a = mkIte(mkLe(a, b), b, a)
			}
		}
		return []*Term{a}
	}
	c.unsupportedf(call, "builtin %s", name)
	return nil
}

func (c *FnCtx) lenOf(st *State, x *Term, xt types.Type, site ast.Node) *Term {
	switch {
	case x.Sort == SStr:
		return mk("slen", SInt, x)
	case c.ts.isSliceSort(x.Sort):
		return c.sliceLen(x)
	}
	if xt != nil {
		if mt, ok := types.Unalias(xt).Underlying().(*types.Map); ok {
			dom := c.mapDom(st, x, mt)
			return mkIte(mkEq(x, intLit(0)), intLit(0), c.mapCard(dom))
		}
	}
	c.unsupportedf(site, "len of %s", x.Sort)
	return nil
}

// sliceConcat: append(a, b...)
func (c *FnCtx) sliceConcat(st *State, a, b *Term) *Term {
	if a.Sort != b.Sort {
		panic("sliceConcat: sort mismatch " + a.Sort + " " + b.Sort)
	}
	r := c.smt.freshConst("cat", a.Sort)
	la, lb := c.sliceLen(a), c.sliceLen(b)
	st.assume(mkEq(mk("rawlen_"+a.Sort, SInt, r), mkAdd(la, lb)))
	st.assume(mkEq(c.sliceNil(r), mkAnd(c.sliceNil(a), mkEq(lb, intLit(0)))))
	c.quantN++
	i := fmt.Sprintf("ci!%d", c.quantN)
	iv := leaf(i, SInt)
	st.assume(mkForall([]Bound{{i, SInt}}, mkImplies(mkAnd(mkLe(intLit(0), iv), mkLt(iv, la)), mkEq(c.sliceAt(r, iv), c.sliceAt(a, iv))), []*Term{c.sliceAt(r, iv)}, []*Term{c.sliceAt(a, iv)}))
	c.quantN++
	j := fmt.Sprintf("cj!%d", c.quantN)
	jv := leaf(j, SInt)
	st.assume(mkForall([]Bound{{j, SInt}}, mkImplies(mkAnd(mkLe(intLit(0), jv), mkLt(jv, lb)), mkEq(c.sliceAt(r, mkAdd(la, jv)), c.sliceAt(b, jv))), []*Term{c.sliceAt(b, jv)}))
	// and the reverse direction, triggered on reads of r
	c.quantN++
	k := fmt.Sprintf("ck!%d", c.quantN)
	kv := leaf(k, SInt)
	st.assume(mkForall([]Bound{{k, SInt}}, mkImplies(mkAnd(mkLe(la, kv), mkLt(kv, mkAdd(la, lb))), mkEq(c.sliceAt(r, kv), c.sliceAt(b, mkSub(kv, la)))), []*Term{c.sliceAt(r, kv)}))
	// membership (for the axiomatised contains)
	es := c.ts.elemSort(r.Sort)
	x := leaf("ax!x", es)
	st.assume(mkForall([]Bound{{x.Op, es}}, mkEq(c.seqContains(r, x), mkOr(c.seqContains(a, x), c.seqContains(b, x))), []*Term{c.seqContains(r, x)}, []*Term{c.seqContains(a, x)}, []*Term{c.seqContains(b, x)}))
	return r
}

// ---------------------------------------------------------------------------

func (c *FnCtx) callFuncValue(st *State, call *ast.CallExpr, fv *Term, name string) []*Term {
	if strings.HasPrefix(fv.Op, "closure#") {
		// a local function literal called directly: its body is executed at the call site (loop-free literals only)
		cl := c.closures[fv.Op]
		if cl == nil || cl.Lit == nil || len(c.inlineStack) >= 3 {
			c.unsupportedf(call, "direct call of local closure %s", name)
		}
		simple := true
		ast.Inspect(cl.Lit.Body, func(n ast.Node) bool {
			switch n.(type) {
			case *ast.ForStmt, *ast.RangeStmt, *ast.FuncLit, *ast.GoStmt, *ast.DeferStmt, *ast.SelectStmt, *ast.LabeledStmt:
				simple = false
			}
			return simple
		})
		if !simple {
			c.unsupportedf(call, "direct call of local closure %s (with loops or nested literals)", name)
		}
		var args []*Term
		lsig := c.typeOf(cl.Lit).(*types.Signature)
		for i, a := range call.Args {
			v := c.eval(st, a)
			if i < lsig.Params().Len() {
				v = c.convertTo(st, v, c.typeOf(a), lsig.Params().At(i).Type())
			}
			args = append(args, v)
		}
		c.inlineStack = append(c.inlineStack, fv.Op)
		outs := c.runClosureBody(st.clone(), cl.Lit, args)
		c.inlineStack = c.inlineStack[:len(c.inlineStack)-1]
		var cands []Out
		for _, o := range outs {
			if o.flow != FReturn && o.flow != FNormal {
				c.unsupportedf(call, "closure body leaves with break/continue")
			}
			cands = append(cands, Out{st: o.st})
		}
		if len(cands) == 0 {
			st.assume(tFalse)
			var rs []*Term
			for i := 0; i < lsig.Results().Len(); i++ {
				rs = append(rs, c.zero(lsig.Results().At(i).Type()))
			}
			return rs
		}
		c.keepRet = true
		merged := c.mergeNormal(cands)
		c.keepRet = false
		if len(merged) != 1 || len(merged[0].st.ret) != lsig.Results().Len() {
			c.unsupportedf(call, "direct call of local closure %s (paths could not be joined)", name)
		}
		m := merged[0].st
		rs := m.ret
		m.ret = nil
		*st = *m
		return rs
	}
	if fv.Op == "$yield" {
		return c.callYield(st, call)
	}
	// a function value of unknown origin (parameter, field, variable): nothing is known about it - arguments are
	// evaluated, the heap is havocked and the results are unconstrained
	for _, a := range call.Args {
		if _, isLit := ast.Unparen(a).(*ast.FuncLit); isLit {
			c.unsupportedf(call, "call of function value %s with a function literal", name)
		}
		c.eval(st, a)
	}
	c.nonNil(st, fv, call, "function value "+name)
	c.havocAllHeap(st)
	c.assumptionsUsed["call of a function value of unknown origin: heap havocked, results unconstrained: "+name] = true
	var rs []*Term
	if fsig, ok := c.typeOf(call.Fun).Underlying().(*types.Signature); ok {
		for i := 0; i < fsig.Results().Len(); i++ {
			rs = append(rs, c.freshOfType(st, "res_"+name, fsig.Results().At(i).Type()))
		}
	}
	return rs
	return nil
}

// callStatic: call of a declared function or method.
func (c *FnCtx) callStatic(st *State, call *ast.CallExpr, fn *types.Func, recv *Term, recvT types.Type) []*Term {
	key := funcKey(fn)
	sig := fn.Type().(*types.Signature)
	// instantiate generic signature at this call site if possible
	if id := identOf(ast.Unparen(stripIndex(call.Fun))); id != nil {
		if inst, ok := c.info.Instances[id]; ok {
			if s, ok := inst.Type.(*types.Signature); ok {
				sig = s
			}
		}
	}
	if recv != nil && isRepoPkg(fn.Pkg()) {
		// implicit address-of / dereference of the receiver
		declRecv := fn.Type().(*types.Signature).Recv().Type()
		_, isIface := types.Unalias(declRecv).Underlying().(*types.Interface)
		if !isIface {
			switch {
			case isPointer(declRecv) && !isPointer(recvT):
				// x.M() with pointer receiver on addressable x: take address
				sel := ast.Unparen(stripIndex(call.Fun)).(*ast.SelectorExpr)
				recv = c.addressOf(st, sel.X, sel)
				recvT = types.NewPointer(recvT)
			case !isPointer(declRecv) && isPointer(recvT):
				recv = c.derefPtr(st, recv, recvT, call.Fun)
				recvT = deref(recvT)
			}
		}
	}
	return c.callByKey(st, call, key, sig, recv, recvT, call.Args, call.Ellipsis.IsValid())
}

func stripIndex(e ast.Expr) ast.Expr {
	switch f := ast.Unparen(e).(type) {
	case *ast.IndexExpr:
		return f.X
	case *ast.IndexListExpr:
		return f.X
	}
	return e
}

// callByKey applies a contract (repo or library) or the default abstraction for the callee key.
func (c *FnCtx) callByKey(st *State, call *ast.CallExpr, key string, sig *types.Signature, recv *Term, recvT types.Type, argExprs []ast.Expr, ellipsis bool) []*Term {
	// higher-order schemas first
	if rs, ok := c.callSchema(st, call, key, argExprs); ok {
		return rs
	}
	// evaluate arguments
	var args []*Term
	params := sig.Params()
	np := params.Len()
	for i, a := range argExprs {
		var pt types.Type
		if sig.Variadic() && i >= np-1 && !ellipsis {
			pt = params.At(np - 1).Type().(*types.Slice).Elem()
		} else if i < np {
			pt = params.At(i).Type()
		}
		if lit, ok := ast.Unparen(a).(*ast.FuncLit); ok {
			args = append(args, c.closureValue(lit))
			continue
		}
		v := c.eval(st, a)
		args = append(args, c.convertTo(st, v, c.typeOf(a), pt))
	}
	if sig.Variadic() && !ellipsis {
		// pack the variadic tail into a slice
		st0 := params.At(np - 1).Type()
		srt := c.ts.sortOf(st0)
		elem := c.ts.elemSort(srt)
		tail := args[np-1:]
		var packed *Term
		if len(tail) == 0 {
			packed = c.nilSlice(srt)
		} else {
			var arr *Term = c.smt.freshConst("vararr", arraySort(SInt, elem))
			for i, v := range tail {
				if v.Sort != elem {
					c.unsupportedf(call, "variadic argument sort %s vs %s", v.Sort, elem)
				}
				arr = mkStore(arr, intLit(int64(i)), v)
			}
			packed = c.mkSlice(srt, intLit(int64(len(tail))), arr)
		}
		args = append(args[:np-1:np-1], packed.withGo(st0))
	}
	return c.applyCallee(st, call, key, sig, recv, recvT, args)
}

// applyCallee: contract application with evaluated arguments.
// applyCallee applies a callee by its contract. If the callee's contract cannot be evaluated against the current code (it
// names something that no longer exists), the callee is treated like a function without contract (inlined if possible,
// otherwise havocked) instead of making the caller undecidable.
func (c *FnCtx) applyCallee(st *State, site ast.Node, key string, sig *types.Signature, recv *Term, recvT types.Type, args []*Term) (rs []*Term) {
	if c.brokenContracts[key] {
		return c.applyCallee1(st, site, key, sig, recv, recvT, args)
	}
	snap := st.clone()
	nobl := len(c.obls)
	func() {
		defer func() {
			if r := recover(); r != nil {
				u, ok := r.(unsupported)
				if !ok || !strings.Contains(u.msg, ": spec: ") || !strings.HasPrefix(key, repoPrefix) {
					panic(r)
				}
				if c.brokenContracts == nil {
					c.brokenContracts = map[string]bool{}
				}
				c.brokenContracts[key] = true
				c.assumptionsUsed["contract of "+shortFuncKey(key)+" does not bind to the current code ("+truncate(u.msg, 100)+"): callee treated as having no contract"] = true
				*st = *snap
				c.obls = c.obls[:nobl]
				rs = c.applyCallee1(st, site, key, sig, recv, recvT, args)
			}
		}()
		rs = c.applyCallee1(st, site, key, sig, recv, recvT, args)
	}()
	return rs
}

func (c *FnCtx) applyCallee1(st *State, site ast.Node, key string, sig *types.Signature, recv *Term, recvT types.Type, args []*Term) []*Term {
	if recv != nil && recvT != nil {
		key = c.eng.canonicalMethodKey(key, recvT)
	}
	ct := c.eng.contracts[key]
	if c.brokenContracts[key] {
		ct = nil
	}
	isRepo := strings.HasPrefix(key, repoPrefix)
	nres := sig.Results().Len()
	fiCallee := c.eng.funcs[key]
	// the callee's contract is written in the scope of the callee's package
	if fiCallee != nil && fiCallee.Pkg != nil && fiCallee.Pkg.Types != nil && fiCallee.Pkg.Types != c.pkg {
		save := c.pkg
		c.pkg = fiCallee.Pkg.Types
		defer func() { c.pkg = save }()
	}
	if isRepo && recv != nil && fiCallee != nil && isPointer(fiCallee.Obj.Type().(*types.Signature).Recv().Type()) && (ct == nil || !ct.NilRecv) {
		// implicit precondition of every pointer-receiver method: the receiver is not nil
		g := mkNot(mkEq(recv, intLit(0)))
		c.oblige(st, "pre", site, shortFuncKey(key)+"#recv", "receiver of "+shortFuncKey(key)+" is not nil", g)
		st.assume(g)
	}
	if isRepo && fiCallee != nil {
		fsig := fiCallee.Obj.Type().(*types.Signature)
		for i := 0; i < fsig.Params().Len() && i < len(args); i++ {
			p := fsig.Params().At(i)
			if isExtPointer(p.Type()) && !(ct != nil && ct.nilable(p.Name())) {
				g := mkNot(mkEq(args[i], intLit(0)))
				c.oblige(st, "pre", site, shortFuncKey(key)+"#nonnil:"+p.Name(), "argument "+p.Name()+" of "+shortFuncKey(key)+" is not nil", g)
				st.assume(g)
			}
		}
	}
	if ct == nil && isRepo && fiCallee == nil {
		// method of an interface declared in the repository: a pure observer of its receiver
		c.assumptionsUsed["methods of repository interfaces without contract are pure observers of the receiver: "+shortFuncKey(key)] = true
		return c.pureApp(st, key, sig, recv, args)
	}
	if !isRepo && recv != nil && recvT != nil && isPointer(recvT) && !(ct != nil && ct.NilRecv) {
		// methods of library types are not called on nil pointers
		c.nonNil(st, recv, site, "receiver of "+lastDot(key))
	}
	if ct == nil {
		if isRepo {
			// repository function without contract: results unconstrained, heap havocked
			c.eng.note("callee without contract: %s (results unconstrained, all heap havocked)", shortFuncKey(key))
			if !c.sweep && c.canInline(fiCallee, recv, recvT) {
				if hasLoops(fiCallee.Decl.Body) {
					c.markImprecise(shortFuncKey(key) + " (function without contract that contains loops: inlined, its loops havocked)")
				}
				if rs, ok := c.inlineCall(st, fiCallee, recv, args, site); ok {
					return rs
				}
			}
			c.markImprecise(shortFuncKey(key) + " (function without contract: heap havocked, results unconstrained)")
			c.havocAllHeap(st)
			var rs []*Term
			for i := 0; i < nres; i++ {
				rs = append(rs, c.freshOfType(st, "res_"+lastDot(key), sig.Results().At(i).Type()))
			}
			return rs
		}
		// library function without contract: pure uninterpreted function of its arguments
		c.trustedUsed["pure: "+key] = true
		return c.pureApp(st, key, sig, recv, args)
	}
	// bind parameters
	env := map[string]*Term{}
	fi := c.eng.funcs[key]
	if fi != nil {
		fsig := fi.Obj.Type().(*types.Signature)
		if fsig.Recv() != nil && recv != nil {
			env[fsig.Recv().Name()] = recv.withGo(fsig.Recv().Type())
		}
		for i := 0; i < fsig.Params().Len() && i < len(args); i++ {
			env[fsig.Params().At(i).Name()] = args[i].withGo(fsig.Params().At(i).Type())
		}
		// a renamed receiver or parameter: the contract still uses the name recorded in contracts/loops.lock; bind it to
		// the variable at the same position of the signature
		if rec := c.eng.localLock[key]; len(rec) > 0 {
			sigVars := localsInOrder(fi)
			for name, ords := range rec {
				if len(ords) == 0 {
					continue
				}
				ord := ords[0]
				if _, have := env[name]; have || ord < 0 || ord >= len(sigVars) {
					continue
				}
				if t, ok := env[sigVars[ord].Name()]; ok && sigVars[ord].Name() != name {
					isSigVar := false
					if fsig.Recv() == sigVars[ord] {
						isSigVar = true
					}
					for i := 0; i < fsig.Params().Len(); i++ {
						if fsig.Params().At(i) == sigVars[ord] {
							isSigVar = true
						}
					}
					if isSigVar {
						env[name] = t
					}
				}
			}
		}
	} else {
		// library contract: parameters named in the contract header; receiver is "recv"
		if recv != nil {
			env["recv"] = recv.withGo(recvT)
		}
		for i, p := range ct.Params {
			if i < len(args) {
				env[p.Name] = args[i].withGo(sigParamType(sig, i))
			}
		}
	}
	for _, g := range ct.Ghosts {
		// ghost parameters are bound by name in the caller's scope
		var v *Term
		if t, ok := c.env[g.Name]; ok {
			v = t
		} else {
			sc := &specCtx{st: st, env: map[string]*Term{}}
			if site != nil {
				sc.site = site.Pos()
			}
			v = c.lookupLocal(sc, g.Name)
		}
		if v == nil {
			c.unsupportedf(site, "ghost parameter %s of %s has no binding in the caller's scope", g.Name, shortFuncKey(key))
		}
		env[g.Name] = v
	}
	saveLets := c.letDefs
	defer func() { c.letDefs = saveLets }()
	c.applyLets(st, ct, env, nil)
	short := shortFuncKey(key)
	for i, r := range ct.Requires {
		g := c.specEval(st, r.Expr, env, nil)
		c.oblige(st, "pre", site, fmt.Sprintf("%s#%d", short, i+1), "precondition of "+short+": "+r.Text, g)
		st.assume(g)
	}
	pre := st.clone()
	// frame
	if !ct.AssignsOK && isRepo {
		c.eng.note("contract of %s has no assigns clause: all heap havocked at calls", short)
		c.havocAllHeap(st)
	}
	for _, a := range ct.Assigns {
		c.havocLocation(st, a, env, pre)
	}
	// results
	var rs []*Term
	if !isRepo && !ct.Impure {
		// library functions are functions of their arguments unless declared impure
		rs = c.pureApp(st, key, sig, recv, args)
	} else if isRepo && fiCallee == nil && len(ct.Assigns) == 0 && ct.AssignsOK {
		// method of a repository interface with a read-only contract: the same observer function as in specs
		c.assumptionsUsed["read-only methods of repository interfaces are observer functions of the receiver: "+shortFuncKey(key)] = true
		rs = c.pureApp(st, key, sig, recv, args)
	} else {
		for i := 0; i < nres; i++ {
			rs = append(rs, c.freshOfType(st, "res_"+lastDot(key), sig.Results().At(i).Type()))
		}
	}
	c.bindResults(env, fi, sig, rs)
	if isRepo || ct.Fresh {
		// the callee may allocate: the watermark moves (fresh(x) in its postcondition means pre.alloc < x <= alloc)
		na := c.smt.freshConst("alloc", SInt)
		st.pc = append(st.pc, mkLe(st.alloc, na)) // holds whether or not the call is reached (short-circuit guards)
		if ct.Fresh && len(rs) > 0 && rs[0].Sort == SInt {
			st.assume(mkOr(mkEq(rs[0], intLit(0)), mkAnd(mkLt(st.alloc, rs[0]), mkLe(rs[0], na))))
		}
		st.alloc = na
	}
	if ct.NonNil && len(rs) > 0 && rs[0].Sort == SInt {
		st.assume(mkNot(mkEq(rs[0], intLit(0))))
	}
	if ct.Trusted {
		c.trustedUsed["contract: "+key] = true
	}
	for _, en := range ct.Ensures {
		// a postcondition that speaks of the callee's own call sites ($ret / $called) is glue information about the callee's
		// body: it is proved there and means nothing at its call sites (the names would denote the caller's call sites)
		if strings.Contains(en.Text, "$ret(") || strings.Contains(en.Text, "$called(") {
			continue
		}
		st.assume(c.specEval(st, en.Expr, env, pre))
	}
	return rs
}

func sigParamType(sig *types.Signature, i int) types.Type {
	if i < sig.Params().Len() {
		return sig.Params().At(i).Type()
	}
	return nil
}

func lastDot(s string) string {
	if i := strings.LastIndex(s, "."); i >= 0 {
		return s[i+1:]
	}
	return s
}

func (c *FnCtx) bindResults(env map[string]*Term, fi *FuncInfo, sig *types.Signature, rs []*Term) {
	for i, r := range rs {
		env[fmt.Sprintf("result%d", i)] = r
		if i == 0 {
			env["result"] = r
		}
		if i < sig.Results().Len() {
			if n := sig.Results().At(i).Name(); n != "" && n != "_" {
				env[n] = r
			}
		}
	}
	if fi != nil {
		fsig := fi.Obj.Type().(*types.Signature)
		for i := 0; i < fsig.Results().Len() && i < len(rs); i++ {
			if n := fsig.Results().At(i).Name(); n != "" && n != "_" {
				env[n] = rs[i]
			}
		}
	}
}

// applyLets activates the `let` definitions of a contract: they are expanded where they are used, in the state
// of the clause that uses them (so a let may denote a post-state value in an ensures clause).
func (c *FnCtx) applyLets(st *State, ct *Contract, env map[string]*Term, old *State) {
	c.letDefs = ct.Lets
}

// freshOfType: an unconstrained value of Go type t (with the well-formedness facts of its sort).
func (c *FnCtx) freshOfType(st *State, hint string, t types.Type) *Term {
	srt := c.ts.sortOf(t)
	v := c.smt.freshConst(hint, srt).withGo(t)
	return v
}

// pureApp: library function as an uninterpreted function of (receiver, args).
func (c *FnCtx) pureApp(st *State, key string, sig *types.Signature, recv *Term, args []*Term) []*Term {
	// one observer function per interface method: x.M() on a concrete library type and on an interface value holding
	// it are the same function (go/ast.Node.Pos, go/types.Object.Name, go/types.Type.Underlying, ...)
	if recv != nil && recv.GoT != nil {
		key = c.eng.canonicalMethodKey(key, recv.GoT)
	}
	var all []*Term
	var sorts []string
	if recv != nil {
		all = append(all, recv)
		sorts = append(sorts, recv.Sort)
	}
	for _, a := range args {
		if strings.HasPrefix(a.Op, "closure#") {
			// a function literal handed to a library function that has no schema: nothing is known about how often it
			// runs or what the function returns - the results are unconstrained, whatever the literal writes is havocked
			cl := c.closures[a.Op]
			if cl == nil || cl.Lit == nil || c.sweepStrictClosures {
				c.unsupportedf(nil, "closure passed to unmodelled function %s", key)
			}
			log := c.dryRun(st, func(s2 *State) {
				lsig := c.typeOf(cl.Lit).(*types.Signature)
				var as []*Term
				for i := 0; i < lsig.Params().Len(); i++ {
					as = append(as, c.freshOfType(s2, "dry_arg", lsig.Params().At(i).Type()))
				}
				c.runClosureBody(s2, cl.Lit, as)
			})
			c.havocWrites(st, log)
			c.assumptionsUsed["library function without schema called with a function literal: result unconstrained, the literal's writes havocked: "+key] = true
			var rs []*Term
			for i := 0; i < sig.Results().Len(); i++ {
				rs = append(rs, c.freshOfType(st, "res_"+lastDot(key), sig.Results().At(i).Type()))
			}
			return rs
		}
		all = append(all, a)
		sorts = append(sorts, a.Sort)
	}
	var rs []*Term
	n := sig.Results().Len()
	for i := 0; i < n; i++ {
		rt := sig.Results().At(i).Type()
		rsort := c.ts.sortOf(rt)
		name := sanitize("fn_" + key)
		if n > 1 {
			name += fmt.Sprintf("_r%d", i)
		}
		c.smt.fun(name, sorts, rsort)
		// the static result type of a library function gives the dynamic type of a non-nil pointer result
		// (library functions only: a repository function may return a pointer converted from another named pointer type -
		// same reference, other static type)
		if pt, ok := types.Unalias(rt).Underlying().(*types.Pointer); ok && rsort == SInt && len(all) > 0 && !strings.HasPrefix(key, repoPrefix) {
			if _, isNamed := types.Unalias(pt.Elem()).(*types.Named); isNamed {
				var bs, vs []string
				for k, so := range sorts {
					bs = append(bs, fmt.Sprintf("(rt!%d %s)", k, so))
					vs = append(vs, fmt.Sprintf("rt!%d", k))
				}
				app := "(" + name + " " + strings.Join(vs, " ") + ")"
				c.smt.axiom("restype:"+name, fmt.Sprintf("(forall (%s) (! (=> (not (= %s 0)) (= (dyntype %s) %s)) :pattern (%s)))", strings.Join(bs, " "), app, app, c.typeTag(rt), app), false, name)
			}
		}
		var r *Term
		if len(all) == 0 {
			r = leaf("("+name+")", rsort)
			r = mk(name, rsort)
			r.Op = name
		} else {
			r = mk(name, rsort, all...)
		}
		r = r.withGo(rt)
		// nullability of pointer/interface results
		ct := c.eng.contracts[key]
		if ct != nil && ct.NonNil && i == 0 {
			st.assume(mkNot(mkEq(r, intLit(0))))
		}
		rs = append(rs, r)
	}
	return rs
}

func (c *FnCtx) havocAllHeap(st *State) {
	for name, t := range st.heap {
		if strings.HasPrefix(name, "G:") {
			fc := c.smt.freshConst(name, t.Sort)
			st.heap[name] = fc.withGo(t.GoT)
			continue
		}
		_, v := arraySorts(t.Sort)
		c.heapHavoc(st, name, v)
	}
	c.assumptionsUsed["calls to repository functions without contract havoc the whole heap known to the caller"] = true
}

// havocLocation applies one assigns item: x.f (a field location), m[all] (contents of a map), *p (a cell).
func (c *FnCtx) havocLocation(st *State, loc *SExpr, env map[string]*Term, pre *State) {
	for _, hl := range c.locHeaps(pre, loc, env) {
		// nothing lives at the nil reference: a nil map/pointer in an assigns clause denotes no location
		st.guards = append(st.guards, mkNot(mkEq(hl.ref, intLit(0))))
		c.heapWrite(st, hl.name, hl.sort, hl.ref, c.smt.freshConst("hv", hl.sort))
		st.guards = st.guards[:len(st.guards)-1]
	}
}

// nameSlice gives a constructed sequence a name, so that facts about its elements stay visible to E-matching.
func (c *FnCtx) nameSlice(st *State, v *Term, hint string) *Term {
	r := c.smt.freshConst(hint, v.Sort)
	st.pc = append(st.pc, mkEq(r, v))
	return r
}

// appendContainsFacts: membership in r = append(s, vs...) (consequences of the definition, stated for the
// axiomatised `contains` so that E-matching finds them).
func (c *FnCtx) appendContainsFacts(st *State, r, s *Term, vs []*Term) {
	es := c.ts.elemSort(r.Sort)
	x := leaf("ax!x", es)
	in := func(sq *Term) *Term { return c.seqContains(sq, x) }
	var eqs []*Term
	for _, v := range vs {
		eqs = append(eqs, mkEq(x, v))
		st.assume(c.seqContains(r, v))
	}
	st.assume(mkForall([]Bound{{x.Op, es}}, mkImplies(in(s), in(r)), []*Term{in(s)}, []*Term{in(r)}))
	st.assume(mkForall([]Bound{{x.Op, es}}, mkImplies(in(r), mkOr(append([]*Term{in(s)}, eqs...)...)), []*Term{in(r)}))
}

// isExtPointer: pointer to a struct declared outside the repository (AST nodes, passes, type-checker objects).
// Such parameters carry the implicit precondition "not nil" unless the contract lists them as `nilable`.
func isExtPointer(t types.Type) bool {
	p, ok := types.Unalias(t).Underlying().(*types.Pointer)
	if !ok {
		return false
	}
	return isExtStruct(p.Elem())
}

func (ct *Contract) nilable(name string) bool {
	for _, n := range ct.NilableParams {
		if n == name {
			return true
		}
	}
	return false
}

// canonicalMethodKey: for a method of a library type, the key of the most general interface of the same package
// that declares a method of that name and is implemented by the receiver type.
func (e *Engine) canonicalMethodKey(key string, recvT types.Type) string {
	if strings.HasPrefix(key, repoPrefix) {
		return key
	}
	ck := key + "|" + types.TypeString(recvT, nil)
	if e.canon == nil {
		e.canon = map[string]string{}
	}
	if v, ok := e.canon[ck]; ok {
		return v
	}
	res := key
	method := lastDot(key)
	on := ownerNamed(recvT)
	if on != nil && on.Obj().Pkg() != nil {
		pkg := on.Obj().Pkg()
		best := ""
		bestN := 1 << 30
		for _, name := range pkg.Scope().Names() {
			tn, ok := pkg.Scope().Lookup(name).(*types.TypeName)
			if !ok || !tn.Exported() {
				continue
			}
			it, ok := tn.Type().Underlying().(*types.Interface)
			if !ok || it.NumMethods() == 0 {
				continue
			}
			if _, isNamed := tn.Type().(*types.Named); !isNamed {
				continue
			}
			has := false
			for i := 0; i < it.NumMethods(); i++ {
				if it.Method(i).Name() == method {
					has = true
				}
			}
			if !has {
				continue
			}
			impl := types.Implements(recvT, it) || types.Implements(types.NewPointer(on), it) || types.Implements(on, it)
			if !impl {
				continue
			}
			if it.NumMethods() < bestN || (it.NumMethods() == bestN && name < best) {
				best, bestN = name, it.NumMethods()
			}
		}
		if best != "" {
			res = pkg.Path() + "." + best + "." + method
		}
	}
	e.canon[ck] = res
	return res
}


// ---------------------------------------------------------------------------
// inlining of repository functions without contract (small helpers, typically extracted by a refactoring): the body is
// executed at the call site instead of havocking the heap. Only loop-free, closure-free, non-recursive bodies.

func (c *FnCtx) canInline(fi *FuncInfo, recv *Term, recvT types.Type) bool {
	if fi == nil || fi.Decl == nil || fi.Decl.Body == nil || len(c.inlineStack) >= 3 {
		return false
	}
	for _, k := range c.inlineStack {
		if k == fi.Key {
			return false
		}
	}
	if fi.Key == c.fi.Key {
		return false
	}
	sig := fi.Obj.Type().(*types.Signature)
	if sig.Recv() != nil {
		if recv == nil || recvT == nil || !types.Identical(recvT, sig.Recv().Type()) {
			return false
		}
	}
	if sig.Variadic() {
		return false
	}
	// loops are allowed: a loop of an inlined function has no invariant, so what it writes is havocked (exactly the
	// written variables and heap locations) - far less than havocking the whole heap for an unknown callee
	ok := true
	ast.Inspect(fi.Decl.Body, func(n ast.Node) bool {
		switch n.(type) {
		case *ast.FuncLit, *ast.GoStmt, *ast.DeferStmt, *ast.SelectStmt, *ast.LabeledStmt:
			ok = false
		}
		return ok
	})
	return ok
}

func (c *FnCtx) inlineCall(st *State, fi *FuncInfo, recv *Term, args []*Term, site ast.Node) (rs []*Term, done bool) {
	saveInfo, savePkg := c.info, c.pkg
	c.info, c.pkg = fi.Pkg.TypesInfo, fi.Pkg.Types
	c.inlineStack = append(c.inlineStack, fi.Key)
	defer func() {
		c.info, c.pkg = saveInfo, savePkg
		c.inlineStack = c.inlineStack[:len(c.inlineStack)-1]
	}()
	c.findBoxed(fi.Decl.Body)
	sig := fi.Obj.Type().(*types.Signature)
	work := st.clone()
	if sig.Recv() != nil && sig.Recv().Name() != "" && sig.Recv().Name() != "_" {
		c.defineVar(work, sig.Recv(), recv.withGo(sig.Recv().Type()))
	}
	for i := 0; i < sig.Params().Len() && i < len(args); i++ {
		p := sig.Params().At(i)
		if p.Name() == "" || p.Name() == "_" {
			continue
		}
		c.defineVar(work, p, args[i].withGo(p.Type()))
	}
	var results []*types.Var
	for i := 0; i < sig.Results().Len(); i++ {
		r := sig.Results().At(i)
		results = append(results, r)
		if r.Name() != "" && r.Name() != "_" {
			c.defineVar(work, r, c.zero(r.Type()))
		}
	}
	c.resultStack = append(c.resultStack, results)
	outs := c.execBlock(work, fi.Decl.Body.List)
	c.resultStack = c.resultStack[:len(c.resultStack)-1]
	var cands []Out
	for _, o := range outs {
		switch o.flow {
		case FReturn:
			cands = append(cands, Out{st: o.st})
		case FNormal:
			o.st.ret = nil
			cands = append(cands, Out{st: o.st})
		default:
			return nil, false
		}
	}
	if len(cands) == 0 {
		// every path panics: the obligations have been generated; the continuation is unreachable
		st.assume(tFalse)
		for i := 0; i < sig.Results().Len(); i++ {
			rs = append(rs, c.zero(sig.Results().At(i).Type()))
		}
		return rs, true
	}
	c.keepRet = true
	merged := c.mergeNormal(cands)
	c.keepRet = false
	if len(merged) != 1 {
		return nil, false
	}
	m := merged[0].st
	if len(m.ret) != sig.Results().Len() {
		return nil, false
	}
	rs = m.ret
	m.ret = nil
	*st = *m
	c.assumptionsUsed["repository functions without contract that are loop-free are inlined at the call site: "+shortFuncKey(fi.Key)] = true
	return rs, true
}


func hasLoops(n ast.Node) bool {
	found := false
	ast.Inspect(n, func(x ast.Node) bool {
		switch x.(type) {
		case *ast.ForStmt, *ast.RangeStmt:
			found = true
		}
		return !found
	})
	return found
}

// markImprecise: the verification of the current function went through a repository function that has no contract and
// could not be handled exactly. Obligations of the current function that then fail are undecided (the helper needs a
// contract), not violations: the loss of precision comes from the missing annotation, not from the code's behaviour.
func (c *FnCtx) markImprecise(what string) {
	if c.sweep {
		return
	}
	for _, w := range c.imprecise {
		if w == what {
			return
		}
	}
	c.imprecise = append(c.imprecise, what)
}


// borrowedReslice: e is a slice expression x[a:b] - or a local variable every assignment of which is one or an append to
// itself - whose base x is rooted in a parameter, a field or a package-level variable (a slice the function did not make).
// Returns a description, or "" if not.
func (c *FnCtx) borrowedReslice(e ast.Expr) string {
	foreign := func(x ast.Expr) bool {
		for {
			switch y := ast.Unparen(x).(type) {
			case *ast.SelectorExpr:
				return true // a field (of a parameter, a receiver, a global ...)
			case *ast.Ident:
				v, ok := c.info.ObjectOf(y).(*types.Var)
				if !ok {
					return false
				}
				if c.isGlobal(v) {
					return true
				}
				// a parameter or receiver of the function
				if sig, ok := c.info.ObjectOf(c.fi.Decl.Name).Type().(*types.Signature); ok {
					for i := 0; i < sig.Params().Len(); i++ {
						if sig.Params().At(i) == v {
							return true
						}
					}
				}
				return false
			case *ast.IndexExpr:
				x = y.X
			default:
				return false
			}
		}
	}
	if se, ok := ast.Unparen(e).(*ast.SliceExpr); ok {
		if _, isSlice := types.Unalias(c.typeOf(se.X)).Underlying().(*types.Slice); isSlice && foreign(se.X) {
			return "a reslice of " + c.exprText(se.X)
		}
		return ""
	}
	id, ok := ast.Unparen(e).(*ast.Ident)
	if !ok || c.fi == nil || c.fi.Decl == nil || c.fi.Decl.Body == nil {
		return ""
	}
	v, ok := c.info.ObjectOf(id).(*types.Var)
	if !ok || c.isGlobal(v) {
		return ""
	}
	why := ""
	ast.Inspect(c.fi.Decl.Body, func(n ast.Node) bool {
		as, ok := n.(*ast.AssignStmt)
		if !ok || len(as.Lhs) != len(as.Rhs) {
			return true
		}
		for i, l := range as.Lhs {
			lid, ok := ast.Unparen(l).(*ast.Ident)
			if !ok || c.info.ObjectOf(lid) != v {
				continue
			}
			if se, ok := ast.Unparen(as.Rhs[i]).(*ast.SliceExpr); ok {
				if _, isSlice := types.Unalias(c.typeOf(se.X)).Underlying().(*types.Slice); isSlice && foreign(se.X) {
					why = "a reslice of " + c.exprText(se.X) + " (held in " + v.Name() + ")"
				}
			}
		}
		return true
	})
	return why
}
