package main

// propertyExtras returns the obligations produced by property-specific generators.
func propertyExtras(eng *Engine, prop, tier, vdir string) (extras []Extra, bounded []string, notes []string) {
	return nil, nil, nil
}
