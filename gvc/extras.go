package main

import (
	"fmt"
	"go/ast"
	"go/types"
	"sort"
	"strings"
)

// propertyExtras returns the obligations produced by property-specific generators.
func propertyExtras(eng *Engine, prop, tier, vdir string) (extras []Extra, bounded []string, notes []string) {
	switch prop {
	case "C15", "C09", "C01", "C02", "C03", "C04", "C05", "C07":
		// (C09 rests on the same anchored expressions: a too permissive expression makes near-miss comments annotations;
		// the checker properties C01-C05 and C07 rest on them because an annotation that is not recognised is never enforced -
		// the expressions are on the data path of every one of them)
		ex, n := relangExtras(eng, vdir)
		extras = append(extras, ex...)
		notes = append(notes, n...)
	case "C10":
		extras = append(extras, analyzerWiringExtras(eng)...)
		notes = append(notes, "wiring/*: every pass.ResultOf[D] read by a run function has D in the analyzer's Requires and every exported fact type is in FactTypes (otherwise the driver panics); decided on the syntax")
	case "C06":
		extras = append(extras, gobShapeExtras(eng)...)
		extras = append(extras, analyzerWiringExtras(eng)...)
		notes = append(notes, "gobshape/*: structural obligations on the fact types (every field reachable from annotations.PackageAnnotations is exported and of a kind encoding/gob transmits without registration); decided on the type graph, no solver")
	}
	return extras, bounded, notes
}


// gobShapeExtras: facts cross process boundaries as gob streams. A field that gob silently drops (unexported) or cannot
// encode (func, chan, interface without registration, unsafe pointer) would make importers see different annotations
// than the declaring package (C06). One obligation per field reachable from the fact payload type.
func gobShapeExtras(eng *Engine) []Extra {
	var out []Extra
	var pkg *types.Package
	for path, p := range eng.pkgs {
		if strings.HasSuffix(path, "/src/annotations") && p.Types != nil {
			pkg = p.Types
		}
	}
	if pkg == nil {
		return []Extra{{Name: "gobshape/annotations", Kind: "gobshape", Detail: "package annotations not found", Decided: true, OK: false}}
	}
	obj, _ := pkg.Scope().Lookup("PackageAnnotations").(*types.TypeName)
	if obj == nil {
		return []Extra{{Name: "gobshape/PackageAnnotations", Kind: "gobshape", Detail: "type PackageAnnotations not found", Decided: true, OK: false}}
	}
	seen := map[string]bool{}
	var walk func(where string, t types.Type)
	add := func(name, detail string, ok bool, why string) {
		out = append(out, Extra{Name: "gobshape/" + name, Kind: "gobshape", Detail: detail, Decided: true, OK: ok, Output: why})
	}
	walk = func(where string, t types.Type) {
		switch u := types.Unalias(t).(type) {
		case *types.Named:
			key := u.String()
			if seen[key] {
				return
			}
			seen[key] = true
			if st, ok := u.Underlying().(*types.Struct); ok {
				for i := 0; i < st.NumFields(); i++ {
					f := st.Field(i)
					name := u.Obj().Name() + "." + f.Name()
					if !f.Exported() {
						add(name, "field is exported (gob drops unexported fields silently)", false, "unexported field "+name+" of a fact type")
						continue
					}
					add(name, "field is exported and of a gob-encodable kind", encodable(f.Type()), fmt.Sprintf("field %s has type %s", name, f.Type()))
					walk(name, f.Type())
				}
				return
			}
			walk(where, u.Underlying())
		case *types.Pointer:
			walk(where, u.Elem())
		case *types.Slice:
			walk(where, u.Elem())
		case *types.Array:
			walk(where, u.Elem())
		case *types.Map:
			walk(where, u.Key())
			walk(where, u.Elem())
		}
	}
	walk("PackageAnnotations", obj.Type())
	sort.Slice(out, func(i, j int) bool { return out[i].Name < out[j].Name })
	return out
}

func encodable(t types.Type) bool {
	switch u := types.Unalias(t).Underlying().(type) {
	case *types.Basic:
		return u.Kind() != types.UnsafePointer && u.Kind() != types.Invalid
	case *types.Pointer:
		return encodable(u.Elem())
	case *types.Slice:
		return encodable(u.Elem())
	case *types.Array:
		return encodable(u.Elem())
	case *types.Map:
		return encodable(u.Key()) && encodable(u.Elem())
	case *types.Struct:
		return true // its fields are checked one by one
	}
	return false // func, chan, interface, ...
}


// analyzerWiringExtras: what the run functions assume of the driver must follow from the Analyzer values themselves:
// every analyzer whose result a run function reads through pass.ResultOf[D] lists D in Requires (otherwise the entry is
// absent and the type assertion on it panics), and the fact type a run function exports is listed in FactTypes
// (otherwise ExportPackageFact panics). Decided on the syntax of package analyzer.
func analyzerWiringExtras(eng *Engine) []Extra {
	var out []Extra
	for path, p := range eng.pkgs {
		if !strings.HasSuffix(path, "/src/analyzer") {
			continue
		}
		info := p.TypesInfo
		// run function name -> (ResultOf dependencies, exported fact type names)
		type use struct {
			deps  map[string]bool
			facts map[string]bool
		}
		uses := map[string]*use{}
		for _, f := range p.Syntax {
			for _, d := range f.Decls {
				fd, ok := d.(*ast.FuncDecl)
				if !ok || fd.Body == nil {
					continue
				}
				u := &use{deps: map[string]bool{}, facts: map[string]bool{}}
				uses[fd.Name.Name] = u
				ast.Inspect(fd.Body, func(n ast.Node) bool {
					switch x := n.(type) {
					case *ast.IndexExpr:
						if sel, ok := x.X.(*ast.SelectorExpr); ok && sel.Sel.Name == "ResultOf" {
							if id, ok := x.Index.(*ast.Ident); ok {
								u.deps[id.Name] = true
							}
						}
					case *ast.CallExpr:
						if sel, ok := x.Fun.(*ast.SelectorExpr); ok && sel.Sel.Name == "ExportPackageFact" && len(x.Args) == 1 {
							if t := info.TypeOf(x.Args[0]); t != nil {
								if pt, ok := t.(*types.Pointer); ok {
									if n, ok := pt.Elem().(*types.Named); ok {
										u.facts[n.Obj().Name()] = true
									}
								}
							}
						}
					}
					return true
				})
			}
		}
		for _, f := range p.Syntax {
			for _, d := range f.Decls {
				gd, ok := d.(*ast.GenDecl)
				if !ok {
					continue
				}
				for _, sp := range gd.Specs {
					vs, ok := sp.(*ast.ValueSpec)
					if !ok || len(vs.Values) != 1 || len(vs.Names) != 1 {
						continue
					}
					ue, ok := vs.Values[0].(*ast.UnaryExpr)
					if !ok {
						continue
					}
					cl, ok := ue.X.(*ast.CompositeLit)
					if !ok {
						continue
					}
					if t := info.TypeOf(cl); t == nil || !strings.HasSuffix(t.String(), "analysis.Analyzer") {
						continue
					}
					name := vs.Names[0].Name
					run := ""
					requires := map[string]bool{}
					facts := map[string]bool{}
					for _, el := range cl.Elts {
						kv, ok := el.(*ast.KeyValueExpr)
						if !ok {
							continue
						}
						switch kv.Key.(*ast.Ident).Name {
						case "Run":
							if id, ok := kv.Value.(*ast.Ident); ok {
								run = id.Name
							}
						case "Requires":
							if l, ok := kv.Value.(*ast.CompositeLit); ok {
								for _, e := range l.Elts {
									if id, ok := e.(*ast.Ident); ok {
										requires[id.Name] = true
									}
								}
							}
						case "FactTypes":
							if l, ok := kv.Value.(*ast.CompositeLit); ok {
								for _, e := range l.Elts {
									if t := info.TypeOf(e); t != nil {
										if pt, ok := t.(*types.Pointer); ok {
											if n, ok := pt.Elem().(*types.Named); ok {
												facts[n.Obj().Name()] = true
											}
										}
									}
								}
							}
						}
					}
					u := uses[run]
					if u == nil {
						out = append(out, Extra{Name: "wiring/" + name + "/run", Kind: "wiring", Detail: "the analyzer's Run is a function of package analyzer", Decided: true, OK: false, Output: "Run function not found: " + run})
						continue
					}
					var deps, fts []string
					for d := range u.deps {
						deps = append(deps, d)
					}
					for ft := range u.facts {
						fts = append(fts, ft)
					}
					sort.Strings(deps)
					sort.Strings(fts)
					for _, d := range deps {
						out = append(out, Extra{Name: "wiring/" + name + "/requires:" + d, Kind: "wiring", Detail: run + " reads pass.ResultOf[" + d + "], so " + name + ".Requires lists " + d, Decided: true, OK: requires[d], Output: d + " is not in " + name + ".Requires"})
					}
					for _, ft := range fts {
						out = append(out, Extra{Name: "wiring/" + name + "/facttype:" + ft, Kind: "wiring", Detail: run + " exports a *" + ft + ", so " + name + ".FactTypes lists it", Decided: true, OK: facts[ft], Output: ft + " is not in " + name + ".FactTypes"})
					}
				}
			}
		}
	}
	sort.Slice(out, func(i, j int) bool { return out[i].Name < out[j].Name })
	return out
}
