package main

// propertyExtras returns the obligations produced by property-specific generators.
func propertyExtras(eng *Engine, prop, tier, vdir string) (extras []Extra, bounded []string, notes []string) {
	switch prop {
	case "C15":
		ex, n := relangExtras(eng, vdir)
		extras = append(extras, ex...)
		notes = append(notes, n...)
	}
	return extras, bounded, notes
}
