package main

import (
	"flag"
	"fmt"
	"go/ast"
	"go/types"
	"os"
	"path/filepath"
	"sort"
	"strings"
)

func (e *Engine) source(filename string) []byte {
	if e.srcCache == nil {
		e.srcCache = map[string][]byte{}
	}
	if b, ok := e.srcCache[filename]; ok {
		return b
	}
	b, _ := os.ReadFile(filename)
	e.srcCache[filename] = b
	return b
}

func (e *Engine) newFnCtx(fi *FuncInfo, sweep bool) *FnCtx {
	smt := newSMT()
	c := &FnCtx{
		eng: e, smt: smt, fi: fi, info: fi.Pkg.TypesInfo, pkg: fi.Pkg.Types,
		ts:      &TypeSys{smt: smt, elemOf: map[string]string{}, pairOf: map[string][2]string{}},
		loopOrd: map[ast.Node]int{}, callOrd: map[ast.Node]string{}, boxed: map[types.Object]bool{},
		env: map[string]*Term{}, closures: map[string]*Closure{}, sweep: sweep,
		trustedUsed: map[string]bool{}, assumptionsUsed: map[string]bool{}, noDecreases: map[int]bool{},
	}
	c.contract = e.contracts[fi.Key]
	return c
}

type FuncReport struct {
	Key        string
	Err        string
	Obls       []*Obligation
	Texts      []string
	Results    []SolveResult
	Trusted    []string
	Assumed    []string
	NoDec      []int
	Unbound    []string // call-site clauses (at call F#k ...) whose call site does not exist in the code
	MapRanges  int
	Paths      int
	Ctx        *FnCtx
	HasContract bool
	Dropped     []string // positions of loop clauses that no longer bind (dropped for this run)
	Imprecise   []string // contract-less repository callees that could not be handled exactly
	LoopsLost   bool     // the function has fewer loops than recorded in loops.lock (a loop was removed, merged or extracted)
}

// unboundLoopClause: does the error message point at a loop clause of the contract (by its file:line position)?
func unboundLoopClause(ct *Contract, msg string, fi *FuncInfo) (string, bool) {
	if !strings.Contains(msg, ": spec: ") {
		return "", false
	}
	// An unknown name in a loop clause: re-binding by recorded declaration position (renamed local) has already been tried
	// while the clause was evaluated; if that did not succeed the variable was removed or the loops were restructured,
	// and the clause is dropped like any other clause that no longer binds. ($i / $seq of a loop that is no longer a range
	// loop are the exception: that is a change of loop form, reported as undecided.)
	if i := strings.Index(msg, "unknown identifier "); i >= 0 {
		name := strings.Fields(msg[i+len("unknown identifier "):])[0]
		if strings.HasPrefix(name, "$") {
			// $i3, $seq1, ...: the index / sequence of another, enclosing loop that no longer exists (the loops were
			// restructured) - the clause no longer binds and is dropped like one that names a removed local
			numbered := false
			for _, pre := range []string{"$i", "$seq", "$v"} {
				if rest := strings.TrimPrefix(name, pre); rest != name && rest != "" && strings.Trim(rest, "0123456789") == "" {
					numbered = true
				}
			}
			if !numbered {
				return "", false
			}
		}
	}
	has := func(cs []Clause) (string, bool) {
		for _, cl := range cs {
			if cl.Pos != "" && strings.Contains(msg, cl.Pos+":") {
				return cl.Pos, true
			}
		}
		return "", false
	}
	for _, ls := range ct.Loops {
		if p, ok := has(ls.Invs); ok {
			return p, true
		}
	}
	for _, ls := range ct.Inspects {
		if p, ok := has(ls.Invs); ok {
			return p, true
		}
		if p, ok := has(ls.Asserts); ok {
			return p, true
		}
	}
	return "", false
}

func dropLoopClause(ct *Contract, pos string) *Contract {
	nc := *ct
	filter := func(cs []Clause) []Clause {
		var out []Clause
		for _, cl := range cs {
			if cl.Pos != pos {
				out = append(out, cl)
			}
		}
		return out
	}
	nc.Loops = map[int]*LoopSpec{}
	for k, ls := range ct.Loops {
		c2 := *ls
		c2.Invs = filter(ls.Invs)
		c2.entry = nil
		nc.Loops[k] = &c2
	}
	nc.Inspects = map[string]*LoopSpec{}
	for k, ls := range ct.Inspects {
		c2 := *ls
		c2.Invs = filter(ls.Invs)
		c2.Asserts = filter(ls.Asserts)
		c2.entry = nil
		nc.Inspects[k] = &c2
	}
	return &nc
}

// verifyFuncBare: the zero-annotation sweep of a function, ignoring its own contract (used when that contract no longer
// binds to the code).
func (e *Engine) verifyFuncBare(fi *FuncInfo) *FuncReport {
	save := e.contracts[fi.Key]
	delete(e.contracts, fi.Key)
	defer func() {
		if save != nil {
			e.contracts[fi.Key] = save
		}
	}()
	return e.verifyFunc(fi, true)
}

func (e *Engine) verifyFunc(fi *FuncInfo, sweep bool) *FuncReport {
	c := e.newFnCtx(fi, sweep)
	rep := &FuncReport{Key: fi.Key, Ctx: c, HasContract: c.contract != nil}
	if c.contract != nil && c.contract.Trusted && !sweep {
		rep.Err = "trusted: contract assumed, body not verified"
		return rep
	}
	err := c.verify()
	// A loop clause (invariant / call-site clause) whose expression no longer type-checks against the code - the loops of
	// the function were restructured - does not bind any more: it is dropped and the function is verified again, so that
	// the obligations of the remaining contract (pre/postconditions, frames) are still generated and decided. A clause that
	// names a local that no longer exists (a renamed local) is not dropped: the function is then reported as outside the
	// subset (undecided), never as a violation.
	for try := 0; err != nil && try < 16 && c.contract != nil && !sweep; try++ {
		pos, ok := unboundLoopClause(c.contract, err.Error(), fi)
		if !ok {
			break
		}
		rep.Dropped = append(rep.Dropped, pos)
		nc := dropLoopClause(c.contract, pos)
		c = e.newFnCtx(fi, sweep)
		c.contract = nc
		rep.Ctx = c
		err = c.verify()
	}
	if err != nil {
		rep.Err = err.Error()
		return rep
	}
	c.emitLibAxioms()
	c.nameObligations()
	rep.Obls = c.obls
	for _, o := range c.obls {
		rep.Texts = append(rep.Texts, c.render(o))
	}
	for k := range c.trustedUsed {
		rep.Trusted = append(rep.Trusted, k)
	}
	sort.Strings(rep.Trusted)
	for k := range c.assumptionsUsed {
		rep.Assumed = append(rep.Assumed, k)
	}
	sort.Strings(rep.Assumed)
	for k := range c.noDecreases {
		rep.NoDec = append(rep.NoDec, k)
	}
	sort.Ints(rep.NoDec)
	if c.contract != nil {
		sites := map[string]bool{}
		for _, n := range c.callOrd {
			sites[n] = true
		}
		for name := range c.contract.Inspects {
			if !sites[name] {
				rep.Unbound = append(rep.Unbound, name)
			}
		}
		sort.Strings(rep.Unbound)
	}
	rep.Imprecise = c.imprecise
	rep.LoopsLost = c.loopsLost
	rep.MapRanges = c.mapRangeLoops
	rep.Paths = c.pathsToReturn
	return rep
}

func (e *Engine) findFuncs(pattern string) []*FuncInfo {
	var out []*FuncInfo
	for k, fi := range e.funcs {
		if shortFuncKey(k) == pattern || k == pattern || strings.HasSuffix(k, "."+pattern) || strings.HasSuffix(k, "/"+pattern) {
			out = append(out, fi)
		}
	}
	sort.Slice(out, func(i, j int) bool { return out[i].Key < out[j].Key })
	return out
}

func verifDir() string {
	if d := os.Getenv("GVC_VERIF_DIR"); d != "" {
		return d
	}
	exe, err := os.Executable()
	if err == nil {
		d := filepath.Dir(filepath.Dir(exe))
		if _, err := os.Stat(filepath.Join(d, "contracts")); err == nil {
			return d
		}
	}
	return "/verif"
}

func repoDir() string {
	if d := os.Getenv("GVC_REPO"); d != "" {
		return d
	}
	return "/repo"
}

func main() {
	if len(os.Args) < 2 {
		fmt.Fprintln(os.Stderr, "usage: gvc <func|check|sweep|replay|selftest> ...")
		os.Exit(2)
	}
	switch os.Args[1] {
	case "func":
		cmdFunc(os.Args[2:])
	case "check":
		cmdCheck(os.Args[2:])
	case "replay":
		cmdReplay(os.Args[2:])
	case "lockloops":
		// maintenance: print the loop signatures of every function under contract (written to contracts/loops.lock)
		cmdLockLoops()
	case "all":
		cmdAll(os.Args[2:])
	default:
		fmt.Fprintln(os.Stderr, "unknown command", os.Args[1])
		os.Exit(2)
	}
}

// cmdFunc: debug one function: print obligations and solver verdicts.
func cmdFunc(args []string) {
	fs := flag.NewFlagSet("func", flag.ExitOnError)
	dump := fs.String("dump", "", "directory to write the SMT files to")
	sweep := fs.Bool("sweep", false, "safety obligations only (ignore contract clauses)")
	timeout := fs.Int("timeout", 10, "per-query timeout (s)")
	tier := fs.String("tier", "quick", "quick|thorough")
	fs.Parse(args)
	eng, err := loadEngine(repoDir(), filepath.Join(verifDir(), "contracts", "lib"))
	if err != nil {
		fmt.Fprintln(os.Stderr, "load:", err)
		os.Exit(2)
	}
	bad := 0
	for _, pat := range fs.Args() {
		fis := eng.findFuncs(pat)
		if len(fis) == 0 {
			fmt.Println("no function matches", pat)
			bad++
			continue
		}
		for _, fi := range fis {
			rep := eng.verifyFunc(fi, *sweep)
			if os.Getenv("GVC_BARE") != "" {
				rep = eng.verifyFuncBare(fi)
			}
			fmt.Printf("== %s\n", shortFuncKey(fi.Key))
			if rep.Err != "" {
				fmt.Println("   ", rep.Err)
				bad++
				continue
			}
			for _, d := range rep.Dropped {
				fmt.Printf("  DROPPED loop clause at %s: it does not bind to the code\n", d)
				bad++
			}
			for _, u := range rep.Unbound {
				fmt.Printf("  UNBOUND call-site clauses for %s: the function has no such call\n", u)
				bad++
			}
			tmp, _ := os.MkdirTemp("", "gvc")
			var jobs []*solveJob
			for i, o := range rep.Obls {
				jobs = append(jobs, &solveJob{name: o.Name, text: rep.Texts[i], cover: o.Cover})
				if *dump != "" {
					os.MkdirAll(*dump, 0o755)
					os.WriteFile(filepath.Join(*dump, fmt.Sprintf("%03d_%s.smt2", i, sanitize(o.Name))), []byte(rep.Texts[i]), 0o644)
				}
			}
			solveAll(tmp, jobs, *tier, *timeout, 16)
			os.RemoveAll(tmp)
			for i, o := range rep.Obls {
				r := jobs[i].res
				ok := r.Status == "unsat"
				if o.Cover {
					ok = r.Status != "unsat" && r.Status != "error"
				}
				mark := "ok  "
				if !ok {
					mark = "FAIL"
					bad++
				}
				fmt.Printf("  %s %-60s %-8s %-7s %5.2fs  %s\n", mark, o.Name+fmt.Sprintf(".%d", o.Inst), r.Status, r.Solver, r.Seconds, truncate(o.Detail, 90))
				if !ok && os.Getenv("GVC_DEBUG") != "" {
					fmt.Printf("         tried: %s\n", strings.Join(r.Tried, " "))
				}
				if !ok && r.Status == "sat" && len(r.Model) > 0 {
					var ks []string
					for k := range r.Model {
						if strings.HasPrefix(k, "p_") {
							ks = append(ks, k)
						}
					}
					sort.Strings(ks)
					for _, k := range ks {
						fmt.Printf("         %s = %s\n", k, truncate(r.Model[k], 100))
					}
				}
			}
			for _, t := range rep.Trusted {
				fmt.Println("   trusted:", t)
			}
			for _, t := range rep.Assumed {
				fmt.Println("   assumed:", t)
			}
		}
	}
	for n := range eng.notes {
		fmt.Println("note:", n)
	}
	if bad > 0 {
		os.Exit(1)
	}
}


// emitLibAxioms registers the (assumed) axioms of the library specs; each is included in a query only when one of
// the library/spec functions it talks about occurs there.
func (c *FnCtx) emitLibAxioms() {
	saveT := c.trustedUsed
	c.trustedUsed = map[string]bool{}
	defer func() { c.trustedUsed = saveT }()
	// interface methods of the repository with an assumed observer contract: the contract as an axiom over the
	// observer function, so that it is also available where the method only occurs in specifications
	var ikeys []string
	for k, ct := range c.eng.contracts {
		if ct.Trusted && strings.HasPrefix(k, repoPrefix) && c.eng.funcs[k] == nil && len(ct.Ensures) > 0 && len(ct.Params) == 0 {
			ikeys = append(ikeys, k)
		}
	}
	sort.Strings(ikeys)
	for _, k := range ikeys {
		ct := c.eng.contracts[k]
		name := sanitize("fn_" + k)
		if !c.smt.declared[name] {
			continue // the observer does not occur in this function
		}
		func() {
			defer func() {
				if r := recover(); r != nil {
					if _, ok := r.(unsupported); ok {
						return
					}
					panic(r)
				}
			}()
			// result sort from the declaration text
			var rsort string
			for _, d := range c.smt.decls {
				if d.Name == name {
					rsort = strings.TrimSuffix(d.Text[strings.LastIndex(d.Text, ") ")+2:], ")")
				}
			}
			if rsort == "" {
				return
			}
			recv := leaf("recv$ax", SInt)
			if it := c.interfaceTypeOf(k); it != nil {
				recv = recv.withGo(it)
			}
			res := mk(name, rsort, recv)
			st := &State{vars: map[types.Object]*Term{}, heap: map[string]*Term{}, ghost: map[string]*Term{}, alloc: intLit(0)}
			var conj []*Term
			for _, en := range ct.Ensures {
				conj = append(conj, c.specEval(st, en.Expr, map[string]*Term{"recv": recv, "result": res}, nil))
			}
			if len(st.heap) > 0 {
				return
			}
			ax := mkForall([]Bound{{recv.Op, SInt}}, mkAnd(conj...), []*Term{res})
			c.smt.axiom("iface:"+shortFuncKey(k), ax.String(), true, name)
		}()
	}
	for _, ax := range c.eng.axioms {
		if ax.Lemma {
			continue
		}
		func() {
			defer func() {
				if r := recover(); r != nil {
					if _, ok := r.(unsupported); ok {
						return // the axiom talks about types this function's context cannot resolve: irrelevant here
					}
					panic(r)
				}
			}()
			st := &State{vars: map[types.Object]*Term{}, heap: map[string]*Term{}, ghost: map[string]*Term{}, alloc: intLit(0)}
			savePre := c.pre
			savePkg := c.pkg
			if ax.Pkg != "" {
				if p := c.eng.pkgs[ax.Pkg]; p != nil && p.Types != nil {
					c.pkg = p.Types
				}
			}
			defer func() { c.pkg = savePkg }()
			c.inAxiom = true
			t := func() *Term {
				defer func() { c.inAxiom = false }()
				return c.specEval(st, ax.Expr, map[string]*Term{}, nil)
			}()
			c.pre = savePre
			for hn := range st.heap {
				if !strings.HasPrefix(hn, "G:") {
					return // axioms must not depend on the heap (package-level variables are constants: frame:global)
				}
			}
			syms := map[string]bool{}
			symbolsOf(t.String(), syms)
			var needs []string
			for sname := range syms {
				if strings.HasPrefix(sname, "fn_") || strings.HasPrefix(sname, "sf_") || strings.HasPrefix(sname, "G_") || strings.HasPrefix(sname, "F_") {
					needs = append(needs, sname)
				}
			}
			if len(needs) == 0 {
				return
			}
			sort.Strings(needs)
			c.smt.axiom("lib:"+ax.Name, t.String(), true, needs...)
		}()
	}
}

// cmdAll: verify every function that has a (non-trusted) contract; print failures and totals (regression aid).
func cmdAll(args []string) {
	fs := flag.NewFlagSet("all", flag.ExitOnError)
	timeout := fs.Int("timeout", 10, "per-query timeout (s)")
	fs.Parse(args)
	eng, err := loadEngine(repoDir(), filepath.Join(verifDir(), "contracts", "lib"))
	if err != nil {
		fmt.Fprintln(os.Stderr, "load:", err)
		os.Exit(2)
	}
	var keys []string
	for k, ct := range eng.contracts {
		if strings.HasPrefix(k, repoPrefix) && !ct.Trusted {
			keys = append(keys, k)
		}
	}
	sort.Strings(keys)
	var jobs []*solveJob
	var owners []*Obligation
	bad := 0
	for _, k := range keys {
		fi := eng.funcs[k]
		if fi == nil {
			fmt.Println("UNBOUND contract:", shortFuncKey(k))
			bad++
			continue
		}
		rep := eng.verifyFunc(fi, false)
		if rep.Err != "" {
			fmt.Printf("OUTSIDE %s: %s\n", shortFuncKey(k), rep.Err)
			bad++
			continue
		}
		for _, d := range rep.Dropped {
			fmt.Printf("DROPPED %s: loop clause at %s does not bind to the code\n", shortFuncKey(k), d)
			bad++
		}
		for _, u := range rep.Unbound {
			fmt.Printf("UNBOUND %s: call-site clauses for %s, but the function has no such call\n", shortFuncKey(k), u)
			bad++
		}
		if impreciseUndecided(rep) {
			for _, d := range rep.Imprecise {
				fmt.Printf("IMPRECISE %s: calls %s (failing obligations of this function are undecided)\n", shortFuncKey(k), d)
			}
		}
		for i, o := range rep.Obls {
			jobs = append(jobs, &solveJob{name: o.Name, text: rep.Texts[i], cover: o.Cover})
			owners = append(owners, o)
		}
	}
	tmp, _ := os.MkdirTemp("", "gvc-all")
	solveAll(tmp, jobs, "quick", *timeout, 16)
	os.RemoveAll(tmp)
	for i, j := range jobs {
		o := owners[i]
		ok := j.res.Status == "unsat"
		if o.Cover {
			ok = j.res.Status != "unsat" && j.res.Status != "error"
		}
		if !ok {
			bad++
			fmt.Printf("FAIL %-70s %-8s %5.2fs %s\n", fmt.Sprintf("%s.%d", o.Name, o.Inst), j.res.Status, j.res.Seconds, truncate(o.Detail, 80))
		}
	}
	fmt.Printf("%d functions, %d obligations, %d problems\n", len(keys), len(jobs), bad)
	for n := range eng.notes {
		fmt.Println("note:", n)
	}
	if bad > 0 {
		os.Exit(1)
	}
}

// interfaceTypeOf resolves "pkgpath.Iface.Method" to the named interface type.
func (c *FnCtx) interfaceTypeOf(key string) types.Type {
	i := strings.LastIndex(key, ".")
	if i < 0 {
		return nil
	}
	rest := key[:i]
	j := strings.LastIndex(rest, ".")
	if j < 0 {
		return nil
	}
	p := c.eng.pkgs[rest[:j]]
	if p == nil || p.Types == nil {
		return nil
	}
	if tn, ok := p.Types.Scope().Lookup(rest[j+1:]).(*types.TypeName); ok {
		return tn.Type()
	}
	return nil
}


func cmdLockLoops() {
	eng, err := loadEngine(repoDir(), filepath.Join(verifDir(), "contracts", "lib"))
	if err != nil {
		fmt.Fprintln(os.Stderr, "load:", err)
		os.Exit(2)
	}
	eng.loopLock = map[string]map[int]string{}
	var keys []string
	for k := range eng.contracts {
		if strings.HasPrefix(k, repoPrefix) && eng.funcs[k] != nil && eng.funcs[k].Decl != nil && eng.funcs[k].Decl.Body != nil {
			keys = append(keys, k)
		}
	}
	sort.Strings(keys)
	fmt.Println("# loop ordinal -> signature for every function under contract, recorded on the unchanged tree by `gvc lockloops`.")
	fmt.Println("# Lets a contract's `loop N` clauses follow their loop when other loops of the function are added, removed or moved.")
	for _, k := range keys {
		fi := eng.funcs[k]
		c := eng.newFnCtx(fi, false)
		n := 0
		ast.Inspect(fi.Decl.Body, func(x ast.Node) bool {
			switch x.(type) {
			case *ast.ForStmt, *ast.RangeStmt:
				n++
				fmt.Printf("%s\t%d\t%s\n", k, n, c.loopSignature(x))
			}
			return true
		})
		for i, v := range localsInOrder(fi) {
			if v.Name() != "_" && v.Name() != "" {
				fmt.Printf("local\t%s\t%s\t%d\n", k, v.Name(), i)
			}
		}
		cnt := map[string]int{}
		ast.Inspect(fi.Decl.Body, func(x ast.Node) bool {
			if call, ok := x.(*ast.CallExpr); ok {
				if name := c.calleeShort(call); name != "" {
					cnt[name]++
				}
			}
			return true
		})
		var names []string
		for n := range cnt {
			names = append(names, n)
		}
		sort.Strings(names)
		for _, n := range names {
			fmt.Printf("call\t%s\t%s\t%d\n", k, n, cnt[n])
		}
	}
}
