package main

import (
	"fmt"
	"go/ast"
	"go/types"
)

// callSchema handles higher-order library functions whose closure argument is executed under a loop schema.
func (c *FnCtx) callSchema(st *State, call *ast.CallExpr, key string, argExprs []ast.Expr) ([]*Term, bool) {
	// a function literal bound once to a local variable (visit := func...) is used like the literal itself
	litOf := func(e ast.Expr) (*ast.FuncLit, bool) {
		if lit, ok := ast.Unparen(e).(*ast.FuncLit); ok {
			return lit, true
		}
		if id, ok := ast.Unparen(e).(*ast.Ident); ok {
			if v, ok := c.info.ObjectOf(id).(*types.Var); ok && !c.isGlobal(v) {
				if t, ok := st.vars[v]; ok && len(t.Op) > 8 && t.Op[:8] == "closure#" {
					if cl := c.closures[t.Op]; cl != nil && cl.Lit != nil {
						return cl.Lit, true
					}
				}
			}
		}
		return nil, false
	}
	switch key {
	case "go/ast.Inspect":
		lit, ok := litOf(argExprs[1])
		if !ok {
			c.unsupportedf(call, "ast.Inspect with a non-literal function")
		}
		c.inspectSchema(st, call, argExprs[0], lit)
		return nil, true
	case "sort.Search":
		lit, ok := litOf(argExprs[1])
		if !ok {
			c.unsupportedf(call, "sort.Search with a non-literal function")
		}
		return []*Term{c.searchSchema(st, call, argExprs[0], lit)}, true
	case "slices.ContainsFunc":
		if lit, ok := litOf(argExprs[1]); ok {
			if r := c.containsFuncSchema(st, call, argExprs[0], lit); r != nil {
				return []*Term{r}, true
			}
		}
		return nil, false
	case "sync.Once.Do":
		lit, ok := litOf(argExprs[0])
		if !ok {
			c.unsupportedf(call, "Once.Do with a non-literal function")
		}
		c.onceSchema(st, call, lit)
		return nil, true
	}
	return nil, false
}

// runClosureBody executes the body of a function literal in the current state (captured variables are the
// caller's variables). Returns the outs; FReturn outs carry st.ret.
func (c *FnCtx) runClosureBody(st *State, lit *ast.FuncLit, args []*Term) []Out {
	sig := c.typeOf(lit).(*types.Signature)
	for i := 0; i < sig.Params().Len(); i++ {
		p := sig.Params().At(i)
		if p.Name() == "" || p.Name() == "_" {
			continue
		}
		c.defineVar(st, p, args[i].withGo(p.Type()))
	}
	var results []*types.Var
	for i := 0; i < sig.Results().Len(); i++ {
		r := sig.Results().At(i)
		results = append(results, r)
		if r.Name() != "" && r.Name() != "_" {
			c.defineVar(st, r, c.zero(r.Type()))
		}
	}
	c.resultStack = append(c.resultStack, results)
	outs := c.execBlock(st, lit.Body.List)
	c.resultStack = c.resultStack[:len(c.resultStack)-1]
	for i := range outs {
		if outs[i].flow == FNormal {
			outs[i].flow = FReturn
			outs[i].st.ret = nil
		}
	}
	return outs
}

// inspectSchema: ast.Inspect(root, f) calls f on a sequence of events; each event is nil or a node of the
// subtree of root (assumed go/ast contract). The closure's result only prunes the walk, so executing the body on
// an arbitrary event under the invariant over-approximates every real walk.
func (c *FnCtx) inspectSchema(st *State, call *ast.CallExpr, rootE ast.Expr, lit *ast.FuncLit) {
	root := c.eval(st, rootE)
	root = c.toInterface(st, root, c.typeOf(rootE))
	c.trustedUsed["schema: go/ast.Inspect visits nil or nodes of the subtree of its root, in depth-first order"] = true
	name := c.callOrd[call]
	var ls *LoopSpec
	if c.contract != nil && !c.sweep {
		ls = c.contract.Inspects[name]
	}
	evSort := c.ts.sliceSort(SInt)
	c.smt.fun("sf_inspEvents", []string{SInt}, evSort)
	c.smt.fun("sf_inspIn", []string{SInt, SInt}, SBool)
	ev := mk("sf_inspEvents", evSort, root)
	n := c.sliceLen(ev)
	nodeT := c.typeOf(lit).(*types.Signature).Params().At(0).Type()
	env := map[string]*Term{"$i": intLit(0), "$seq": ev.withGo(types.NewSlice(nodeT)), "$root": root, "$n": n}
	c.checkInvs(st, ls, "inv-init", call, 0, env)
	log := c.dryRun(st, func(s *State) {
		c.runClosureBody(s, lit, []*Term{c.smt.freshConst("dry_n", SInt).withGo(nodeT)})
	})
	entryAlloc := c.pre.alloc
	if ls != nil && ls.FrameEntry {
		entryAlloc = st.alloc
	}
	frames := c.havocWrites(st, log)
	useFrame := ls != nil && ls.Frame
	if useFrame {
		st.pc = append(st.pc, c.loopFrame(st, frames, entryAlloc)...)
	}
	iv := c.smt.freshConst("insp_i", SInt)
	st.pc = append(st.pc, mkLe(intLit(0), iv), mkLe(iv, n))
	env["$i"] = iv
	c.assumeInvs(st, ls, call, env)
	// body on event iv
	b := st.clone()
	b.pc = append(b.pc, mkLt(iv, n))
	node := c.sliceAt(ev, iv)
	b.pc = append(b.pc, mkOr(mkEq(node, intLit(0)), mk("sf_inspIn", SBool, node, root)))
	env["$node"] = node.withGo(nodeT)
	c.smt.fun("sf_properAnc", []string{SInt, SInt}, SBool)
	prunedAbove := func(s *State, n *Term) *Term {
		// some proper ancestor of n inside the walked subtree is a node at which the closure returns false
		c.quantN++
		av := leaf(fmt.Sprintf("anc!%d", c.quantN), SInt)
		env3 := map[string]*Term{}
		for k, v := range env {
			env3[k] = v
		}
		env3["$node"] = av.withGo(nodeT)
		pr := c.specEvalAt(s, ls.Prunes, env3, c.pre, call)
		return mkExists([]Bound{{av.Op, SInt}}, mkAnd(mk("sf_inspIn", SBool, av, root), mk("sf_properAnc", SBool, av, node0(n)), pr), []*Term{mk("sf_properAnc", SBool, av, node0(n))})
	}
	if ls != nil && ls.Prunes != nil {
		c.trustedUsed["schema: go/ast.Inspect skips exactly the subtrees below nodes at which the function returns false"] = true
		b.pc = append(b.pc, mkOr(mkEq(node, intLit(0)), mkNot(prunedAbove(b, node))))
	}
	for _, o := range c.runClosureBody(b, lit, []*Term{node.withGo(nodeT)}) {
		if o.flow != FReturn {
			c.unsupportedf(lit, "closure body leaves with break/continue")
		}
		if ls != nil && ls.Prunes != nil && len(o.st.ret) == 1 {
			env3 := map[string]*Term{}
			for k, v := range env {
				env3[k] = v
			}
			pr := c.specEvalAt(o.st, ls.Prunes, env3, c.pre, call)
			c.oblige(o.st, "prune", call, "", "the function returns false exactly at the nodes the contract says it prunes: "+ls.Prunes.String(), mkImplies(mkNot(mkEq(node, intLit(0))), mkEq(o.st.ret[0], mkNot(pr))))
		}
		env2 := map[string]*Term{}
		for k, v := range env {
			env2[k] = v
		}
		env2["$i"] = mkAdd(iv, intLit(1))
		if len(o.st.ret) == 1 {
			env2["$ret"] = o.st.ret[0]
		}
		c.checkInvs(o.st, ls, "inv-step", call, 0, env2)
		if useFrame {
			for k, g := range c.loopFrame(o.st, frames, entryAlloc) {
				c.oblige(o.st, "inv-step", call, fmt.Sprintf("loop0.frame%d", k+1), "loop frame: locations allocated before the walk are unchanged in "+c.lastFrameNames[k], g)
			}
		}
	}
	// continue after the walk
	st.pc = append(st.pc, mkEq(iv, n))
	if ls != nil && ls.Prunes != nil {
		// every node of the subtree that is not below a pruning node is among the events
		c.quantN++
		nv := leaf(fmt.Sprintf("in!%d", c.quantN), SInt)
		env["$node"] = nv.withGo(nodeT)
		st.pc = append(st.pc, mkForall([]Bound{{nv.Op, SInt}}, mkImplies(mkAnd(mk("sf_inspIn", SBool, nv, root), mkNot(prunedAbove(st, nv))), c.seqContains(ev, nv)), []*Term{mk("sf_inspIn", SBool, nv, root)}))
		// ... and a node that is skipped lies below a pruning node that was itself visited (the topmost one)
		{
			c.quantN++
			nv2 := leaf(fmt.Sprintf("in!%d", c.quantN), SInt)
			c.quantN++
			av := leaf(fmt.Sprintf("anc!%d", c.quantN), SInt)
			env3 := map[string]*Term{}
			for k, v := range env {
				env3[k] = v
			}
			env3["$node"] = av.withGo(nodeT)
			pr := c.specEvalAt(st, ls.Prunes, env3, c.pre, call)
			visitedPruner := mkExists([]Bound{{av.Op, SInt}}, mkAnd(c.seqContains(ev, av), mkNot(mkEq(av, intLit(0))), mk("sf_inspIn", SBool, av, root), mk("sf_properAnc", SBool, av, nv2), pr), []*Term{mk("sf_properAnc", SBool, av, nv2)})
			st.pc = append(st.pc, mkForall([]Bound{{nv2.Op, SInt}}, mkImplies(mk("sf_inspIn", SBool, nv2, root), mkOr(c.seqContains(ev, nv2), visitedPruner)), []*Term{mk("sf_inspIn", SBool, nv2, root)}))
		}
	} else if alwaysTrue(lit) {
		// the closure never prunes: every node of the subtree is among the events (assumed go/ast contract)
		c.trustedUsed["schema: go/ast.Inspect with a function that always returns true visits every node of the subtree"] = true
		c.quantN++
		nv := leaf(fmt.Sprintf("in!%d", c.quantN), SInt)
		st.pc = append(st.pc, mkForall([]Bound{{nv.Op, SInt}}, mkImplies(mk("sf_inspIn", SBool, nv, root), c.seqContains(ev, nv)), []*Term{mk("sf_inspIn", SBool, nv, root)}))
	}
}

// searchSchema: sort.Search(n, f) returns the smallest index in [0,n] at which f is true, given f is monotone
// (assumed library contract); we only use: 0 <= r <= n, r < n ==> f(r), and f(r-1) false when r > 0.
func (c *FnCtx) searchSchema(st *State, call *ast.CallExpr, nE ast.Expr, lit *ast.FuncLit) *Term {
	n := c.eval(st, nE)
	c.trustedUsed["schema: sort.Search returns r in [0,n] with f(r) true if r<n (f is only evaluated on [0,n))"] = true
	r := c.smt.freshConst("search", SInt)
	st.pc = append(st.pc, mkLe(intLit(0), r), mkLe(r, mkIte(mkLt(n, intLit(0)), intLit(0), n)))
	// safety of the predicate on an arbitrary probe index in [0,n)
	probe := c.smt.freshConst("probe", SInt)
	p := st.clone()
	p.pc = append(p.pc, mkLe(intLit(0), probe), mkLt(probe, n))
	c.runClosureBody(p, lit, []*Term{probe})
	// facts about r: evaluate the predicate at r (when r < n) on a scratch copy and import its value
	q := st.clone()
	q.pc = append(q.pc, mkLt(r, n))
	saved := len(c.obls)
	outs := c.runClosureBody(q, lit, []*Term{r})
	c.obls = c.obls[:saved]
	if len(outs) == 1 && len(outs[0].st.ret) == 1 {
		st.pc = append(st.pc, mkImplies(mkLt(r, n), outs[0].st.ret[0]))
		// definitional facts introduced while evaluating (heap names etc.)
		st.pc = append(st.pc, guardAll(mkLt(r, n), outs[0].st.pc[len(q.pc):])...)
	}
	// predecessor is false
	q2 := st.clone()
	pr := mkSub(r, intLit(1))
	q2.pc = append(q2.pc, mkLt(intLit(0), r))
	base := len(q2.pc)
	saved = len(c.obls)
	outs = c.runClosureBody(q2, lit, []*Term{pr})
	c.obls = c.obls[:saved]
	if len(outs) == 1 && len(outs[0].st.ret) == 1 {
		st.pc = append(st.pc, mkImplies(mkLt(intLit(0), r), mkNot(outs[0].st.ret[0])))
		st.pc = append(st.pc, guardAll(mkLt(intLit(0), r), outs[0].st.pc[base:])...)
	}
	return r
}

// containsFuncSchema: slices.ContainsFunc(s, pred) with a predicate literal that is a pure expression of its argument
// (one path, no writes, no new facts): the result is "some element satisfies the predicate". The predicate becomes an
// SMT function of the element (define-fun over the term obtained by running the literal on a fresh element); its safety
// is checked on an arbitrary element of the slice. Returns nil if the literal is not of that form (the caller then falls
// back to the unconstrained result).
func (c *FnCtx) containsFuncSchema(st *State, call *ast.CallExpr, sE ast.Expr, lit *ast.FuncLit) *Term {
	sl, ok := types.Unalias(c.typeOf(sE)).Underlying().(*types.Slice)
	if !ok {
		return nil
	}
	s := c.eval(st, sE)
	n := c.sliceLen(s)
	// the predicate as a function of the element
	e := c.freshOfType(st, "cf_elem", sl.Elem())
	q := st.clone()
	base := len(q.pc)
	saved := len(c.obls)
	log := c.dryRun(st, func(s2 *State) { c.runClosureBody(s2, lit, []*Term{e}) })
	outs := c.runClosureBody(q, lit, []*Term{e})
	c.obls = c.obls[:saved]
	wrote := len(log.heaps) > 0 || len(log.globs) > 0 || log.ghosts || len(log.whole) > 0
	for v := range log.vars {
		if v.Pos() < lit.Pos() || v.Pos() > lit.End() {
			wrote = true // a variable of the enclosing function
		}
	}
	if len(outs) != 1 || len(outs[0].st.ret) != 1 || len(outs[0].st.pc) != base || wrote {
		return nil
	}
	c.trustedUsed["schema: slices.ContainsFunc(s, f) reports whether f holds for some element of s"] = true
	// safety of the predicate on an arbitrary element
	probe := c.smt.freshConst("probe", SInt)
	p := st.clone()
	p.pc = append(p.pc, mkLe(intLit(0), probe), mkLt(probe, n))
	c.runClosureBody(p, lit, []*Term{c.sliceAt(s, probe)})
	body := outs[0].st.ret[0]
	c.cfCount++
	fn := fmt.Sprintf("cfpred!%s!%d", sanitize(c.fi.Key), c.cfCount)
	c.smt.decls = append(c.smt.decls, Decl{fn, fmt.Sprintf("(define-fun %s ((%s %s)) Bool %s)", fn, e.Op, e.Sort, body)})
	c.smt.declared[fn] = true
	r := c.smt.freshConst("containsfunc", SBool)
	i := leaf(fmt.Sprintf("cf!d%d", c.cfCount), SInt)
	st.pc = append(st.pc, mkEq(r, mkExists([]Bound{{i.Op, SInt}}, mkAnd(mkLe(intLit(0), i), mkLt(i, n), mk(fn, SBool, c.sliceAt(s, i))), []*Term{c.sliceAt(s, i)})))
	return r
}

func guardAll(g *Term, ts []*Term) []*Term {
	var out []*Term
	for _, t := range ts {
		out = append(out, mkImplies(g, t))
	}
	return out
}

// onceSchema: sync.Once.Do(f) runs f at most once: either the body runs now or it does not.
func (c *FnCtx) onceSchema(st *State, call *ast.CallExpr, lit *ast.FuncLit) {
	c.trustedUsed["schema: sync.Once.Do runs its argument at most once, to completion, before returning"] = true
	log := c.dryRun(st, func(s *State) { c.runClosureBody(s, lit, nil) })
	ran := st.clone()
	c.allowGlobalWrite = true
	outs := c.runClosureBody(ran, lit, nil)
	c.allowGlobalWrite = false
	// after the call: either the argument did not run (state unchanged) or it ran to completion (one of its end states)
	cands := []Out{{st: st.clone()}}
	for _, o := range outs {
		if o.flow == FNormal || o.flow == FReturn {
			o.st.ret = nil
			cands = append(cands, Out{st: o.st})
		}
	}
	if merged := c.mergeNormal(cands); len(merged) == 1 {
		*st = *merged[0].st
		return
	}
	// fall back: the written locations hold unknown values
	c.havocWrites(st, log)
}

// ---------------------------------------------------------------------------
// iterator producers

// runProducer verifies a function literal returned as iter.Seq / iter.Seq2: every yield appends to the ghost
// trace; the contract's ensures clauses are checked with `result` bound to the complete trace at every normal
// end of the literal; after a false answer from yield the literal must not yield again.
func (c *FnCtx) runProducer(st *State, cl *Closure, site ast.Node) {
	lit := cl.Lit
	sig := c.typeOf(lit).(*types.Signature)
	if sig.Params().Len() != 1 {
		c.unsupportedf(lit, "returned closure is not an iterator")
	}
	yieldVar := sig.Params().At(0)
	ysig, ok := yieldVar.Type().Underlying().(*types.Signature)
	if !ok {
		c.unsupportedf(lit, "returned closure is not an iterator")
	}
	var elemSort string
	if ysig.Params().Len() == 1 {
		elemSort = c.ts.sortOf(ysig.Params().At(0).Type())
	} else {
		elemSort = c.ts.pairSort(c.ts.sortOf(ysig.Params().At(0).Type()), c.ts.sortOf(ysig.Params().At(1).Type()))
	}
	seqSort := c.ts.sliceSort(elemSort)
	resT := c.fi.Obj.Type().(*types.Signature).Results().At(0).Type()
	empty := c.mkSlice(seqSort, intLit(0), c.smt.freshConst("yarr", arraySort(SInt, elemSort))).withGo(resT)
	st.ghost["$yielded"] = empty
	st.ghost["$stopped"] = tFalse
	c.yieldElem = elemSort
	c.yieldPair = ysig.Params().Len() == 2
	st.vars[yieldVar] = leaf("$yield", SInt)
	c.resultStack = append(c.resultStack, nil)
	outs := c.execBlock(st, lit.Body.List)
	c.resultStack = c.resultStack[:len(c.resultStack)-1]
	fsig := c.fi.Obj.Type().(*types.Signature)
	for _, o := range outs {
		if o.flow != FNormal && o.flow != FReturn {
			c.unsupportedf(lit, "break/continue escaping iterator body")
		}
		s := o.st
		// only complete enumerations have to satisfy the postcondition
		s.pc = append(s.pc, mkNot(s.ghost["$stopped"]))
		env := c.entryEnv(s)
		c.bindResults(env, c.fi, fsig, []*Term{s.ghost["$yielded"].withGo(resT)})
		c.applyLets(s, c.contract, env, c.pre)
		c.pathsToReturn++
		for i, en := range c.contract.Ensures {
			g := c.specEvalAt(s, en.Expr, env, c.pre, site)
			c.oblige(s, "post", c.fi.Decl, fmt.Sprintf("%d", i+1), en.Text, g)
		}
	}
}

func (c *FnCtx) callYield(st *State, call *ast.CallExpr) []*Term {
	y := st.ghost["$yielded"]
	if y == nil {
		c.unsupportedf(call, "yield outside a producer")
	}
	c.oblige(st, "safe:yield", call, "", "no yield after the consumer stopped", mkNot(st.ghost["$stopped"]))
	var v *Term
	if c.yieldPair {
		ps := c.yieldElem
		a := c.eval(st, call.Args[0])
		b := c.eval(st, call.Args[1])
		v = mk("mk_"+ps, ps, a, b)
	} else {
		v = c.eval(st, call.Args[0])
	}
	n := c.sliceLen(y)
	ny := c.mkSlice(y.Sort, mkAdd(n, intLit(1)), mkStore(c.sliceArr(y), n, v)).withGo(y.GoT)
	if g := st.guard(); !isLit(g, "true") {
		ny = mkIte(g, ny, y)
	}
	ny = c.nameSlice(st, ny, "yielded").withGo(y.GoT)
	st.assume(mkEq(c.sliceAt(ny, n), v))
	if isLit(st.guard(), "true") {
		c.appendContainsFacts(st, ny, y, []*Term{v})
	}
	st.ghost["$yielded"] = ny
	if c.log != nil {
		c.log.ghosts = true
	}
	more := c.smt.freshConst("more", SBool)
	st.ghost["$stopped"] = mkOr(st.ghost["$stopped"], mkAnd(st.guard(), mkNot(more)))
	return []*Term{more}
}

// alwaysTrue: every return statement of the literal returns the constant true.
func alwaysTrue(lit *ast.FuncLit) bool {
	ok := true
	found := false
	ast.Inspect(lit.Body, func(n ast.Node) bool {
		if _, nested := n.(*ast.FuncLit); nested {
			return false
		}
		if r, isRet := n.(*ast.ReturnStmt); isRet {
			found = true
			if len(r.Results) != 1 {
				ok = false
			} else if id, isId := r.Results[0].(*ast.Ident); !isId || id.Name != "true" {
				ok = false
			}
		}
		return true
	})
	return ok && found
}

func node0(n *Term) *Term { return n }
