package main

import (
	"fmt"
	"strings"
)

// concEval evaluates spec expressions on concrete Go values (int64, string, bool, []interface{}).
// It is the executable form of a clause, used to judge the result the real function produced in a replay.
type concEval struct {
	eng *Engine
	env map[string]interface{}
}

type concErr struct{ msg string }

func (ce *concEval) fail(format string, args ...interface{}) {
	panic(concErr{fmt.Sprintf(format, args...)})
}

func (ce *concEval) evalClause(ct *Contract, e *SExpr) (ok bool, err error) {
	defer func() {
		if r := recover(); r != nil {
			if c, isC := r.(concErr); isC {
				err = fmt.Errorf("%s", c.msg)
				return
			}
			panic(r)
		}
	}()
	// requires must hold for the inputs (otherwise the run says nothing)
	for _, l := range ct.Lets {
		ce.env[l.Name] = ce.ev(l.Expr, ce.env)
	}
	for _, r := range ct.Requires {
		if b, _ := ce.ev(r.Expr, ce.env).(bool); !b {
			return true, fmt.Errorf("inputs do not satisfy the precondition %s", r.Text)
		}
	}
	v := ce.ev(e, ce.env)
	b, isB := v.(bool)
	if !isB {
		return false, fmt.Errorf("clause is not boolean")
	}
	return b, nil
}

func (ce *concEval) ev(e *SExpr, env map[string]interface{}) interface{} {
	switch e.Kind {
	case "int", "char":
		return e.Int
	case "str":
		return e.Str
	case "bool":
		return e.Name == "true"
	case "nil":
		return nil
	case "ident":
		if v, ok := env[e.Name]; ok {
			return v
		}
		if f, ok := ce.eng.specFuncs[e.Name]; ok && len(f.Params) == 0 && f.Body != nil {
			return ce.ev(f.Body, map[string]interface{}{})
		}
		ce.fail("unknown identifier %s", e.Name)
	case "old":
		return ce.ev(e.Args[0], env)
	case "unary":
		x := ce.ev(e.Args[0], env)
		switch e.Name {
		case "!":
			return !x.(bool)
		case "-":
			return -x.(int64)
		}
	case "cond":
		if ce.ev(e.Args[0], env).(bool) {
			return ce.ev(e.Args[1], env)
		}
		return ce.ev(e.Args[2], env)
	case "binary":
		switch e.Name {
		case "&&":
			return ce.ev(e.Args[0], env).(bool) && ce.ev(e.Args[1], env).(bool)
		case "||":
			return ce.ev(e.Args[0], env).(bool) || ce.ev(e.Args[1], env).(bool)
		case "==>":
			return !ce.ev(e.Args[0], env).(bool) || ce.ev(e.Args[1], env).(bool)
		case "<==>":
			return ce.ev(e.Args[0], env).(bool) == ce.ev(e.Args[1], env).(bool)
		}
		a := ce.ev(e.Args[0], env)
		b := ce.ev(e.Args[1], env)
		switch e.Name {
		case "==":
			return concEq(a, b)
		case "!=":
			return !concEq(a, b)
		}
		if sa, ok := a.(string); ok && e.Name == "+" {
			return sa + b.(string)
		}
		x, ok1 := a.(int64)
		y, ok2 := b.(int64)
		if !ok1 || !ok2 {
			ce.fail("operator %s on non-integers", e.Name)
		}
		switch e.Name {
		case "+":
			return x + y
		case "-":
			return x - y
		case "*":
			return x * y
		case "/":
			if y == 0 {
				ce.fail("division by zero in clause")
			}
			return x / y
		case "%":
			if y == 0 {
				ce.fail("division by zero in clause")
			}
			return x % y
		case "<":
			return x < y
		case "<=":
			return x <= y
		case ">":
			return x > y
		case ">=":
			return x >= y
		}
	case "index":
		x := ce.ev(e.Args[0], env)
		i := ce.ev(e.Args[1], env).(int64)
		switch s := x.(type) {
		case string:
			if i < 0 || i >= int64(len(s)) {
				ce.fail("index out of range in clause")
			}
			return int64(s[i])
		case []interface{}:
			if i < 0 || i >= int64(len(s)) {
				ce.fail("index out of range in clause")
			}
			return s[i]
		}
	case "slice":
		x := ce.ev(e.Args[0], env)
		lo := int64(0)
		if e.Args[1] != nil {
			lo = ce.ev(e.Args[1], env).(int64)
		}
		switch s := x.(type) {
		case string:
			hi := int64(len(s))
			if e.Args[2] != nil {
				hi = ce.ev(e.Args[2], env).(int64)
			}
			if lo < 0 || lo > hi || hi > int64(len(s)) {
				ce.fail("slice bounds out of range in clause")
			}
			return s[lo:hi]
		case []interface{}:
			hi := int64(len(s))
			if e.Args[2] != nil {
				hi = ce.ev(e.Args[2], env).(int64)
			}
			if lo < 0 || lo > hi || hi > int64(len(s)) {
				ce.fail("slice bounds out of range in clause")
			}
			return s[lo:hi]
		}
	case "quant":
		return ce.evQuant(e, env)
	case "call":
		callee := e.Args[0]
		if callee.Kind == "ident" {
			switch callee.Name {
			case "len":
				switch s := ce.ev(e.Args[1], env).(type) {
				case string:
					return int64(len(s))
				case []interface{}:
					return int64(len(s))
				case nil:
					return int64(0)
				}
				ce.fail("len of unsupported value")
			case "contains":
				s, _ := ce.ev(e.Args[1], env).([]interface{})
				x := ce.ev(e.Args[2], env)
				for _, y := range s {
					if concEq(x, y) {
						return true
					}
				}
				return false
			}
			if f, ok := ce.eng.specFuncs[callee.Name]; ok && f.Body != nil {
				env2 := map[string]interface{}{}
				for i, p := range f.Params {
					env2[p.Name] = ce.ev(e.Args[1+i], env)
				}
				return ce.ev(f.Body, env2)
			}
		}
		if callee.Kind == "sel" && callee.Args[0].Kind == "ident" {
			name := callee.Args[0].Name + "." + callee.Name
			var as []interface{}
			for _, a := range e.Args[1:] {
				as = append(as, ce.ev(a, env))
			}
			if f, ok := concLib[name]; ok {
				return f(as)
			}
		}
		ce.fail("call %s is not executable", e)
	}
	ce.fail("expression %s is not executable", e)
	return nil
}

var concLib = map[string]func([]interface{}) interface{}{
	"strings.HasPrefix": func(a []interface{}) interface{} { return strings.HasPrefix(a[0].(string), a[1].(string)) },
	"strings.HasSuffix": func(a []interface{}) interface{} { return strings.HasSuffix(a[0].(string), a[1].(string)) },
	"strings.Contains":  func(a []interface{}) interface{} { return strings.Contains(a[0].(string), a[1].(string)) },
	"strings.TrimSpace": func(a []interface{}) interface{} { return strings.TrimSpace(a[0].(string)) },
	"strings.ToUpper":   func(a []interface{}) interface{} { return strings.ToUpper(a[0].(string)) },
	"strings.ToLower":   func(a []interface{}) interface{} { return strings.ToLower(a[0].(string)) },
}

func concEq(a, b interface{}) bool {
	switch x := a.(type) {
	case []interface{}:
		y, ok := b.([]interface{})
		if !ok || len(x) != len(y) {
			return false
		}
		for i := range x {
			if !concEq(x[i], y[i]) {
				return false
			}
		}
		return true
	}
	return a == b
}

// evQuant handles quantifiers over integers whose body has the shape  lo <= i && i < hi ==> P  (forall)
// or  lo <= i && i < hi && P  (exists); other shapes are not executable.
func (ce *concEval) evQuant(e *SExpr, env map[string]interface{}) interface{} {
	if len(e.Binds) != 1 || e.Binds[0].Type != "int" {
		ce.fail("quantifier %s is not executable (only single integer variables)", e)
	}
	v := e.Binds[0].Name
	body := e.Args[0]
	var guard, rest *SExpr
	if e.Name == "forall" && body.Kind == "binary" && body.Name == "==>" {
		guard, rest = body.Args[0], body.Args[1]
	} else if e.Name == "exists" {
		guard, rest = body, nil
	} else {
		ce.fail("quantifier %s is not executable", e)
	}
	lo, hi, ok := ce.rangeOf(guard, v, env)
	if !ok || hi-lo > 100000 {
		ce.fail("quantifier %s has no executable range", e)
	}
	env2 := map[string]interface{}{}
	for k, x := range env {
		env2[k] = x
	}
	for i := lo; i < hi; i++ {
		env2[v] = i
		g := ce.ev(guard, env2).(bool)
		if e.Name == "forall" {
			if g && !ce.ev(rest, env2).(bool) {
				return false
			}
		} else if g {
			return true
		}
	}
	return e.Name == "forall"
}

// rangeOf finds constant bounds lo <= v < hi among the conjuncts of g.
func (ce *concEval) rangeOf(g *SExpr, v string, env map[string]interface{}) (int64, int64, bool) {
	var conj []*SExpr
	var flat func(x *SExpr)
	flat = func(x *SExpr) {
		if x.Kind == "binary" && x.Name == "&&" {
			flat(x.Args[0])
			flat(x.Args[1])
			return
		}
		conj = append(conj, x)
	}
	flat(g)
	var lo, hi int64
	haveLo, haveHi := false, false
	isV := func(x *SExpr) bool { return x.Kind == "ident" && x.Name == v }
	for _, x := range conj {
		if x.Kind != "binary" {
			continue
		}
		a, b := x.Args[0], x.Args[1]
		switch {
		case x.Name == "<=" && isV(b) && !mentionsIdent(a, v):
			lo, haveLo = ce.ev(a, env).(int64), true
		case x.Name == "<" && isV(b) && !mentionsIdent(a, v):
			lo, haveLo = ce.ev(a, env).(int64)+1, true
		case x.Name == "<" && isV(a) && !mentionsIdent(b, v):
			hi, haveHi = ce.ev(b, env).(int64), true
		case x.Name == "<=" && isV(a) && !mentionsIdent(b, v):
			hi, haveHi = ce.ev(b, env).(int64)+1, true
		case x.Name == ">=" && isV(a) && !mentionsIdent(b, v):
			lo, haveLo = ce.ev(b, env).(int64), true
		}
	}
	return lo, hi, haveLo && haveHi
}

func mentionsIdent(e *SExpr, v string) bool {
	if e == nil {
		return false
	}
	if e.Kind == "ident" && e.Name == v {
		return true
	}
	for _, a := range e.Args {
		if mentionsIdent(a, v) {
			return true
		}
	}
	return false
}
