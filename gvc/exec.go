package main

import (
	"runtime/debug"
	"os"
	"fmt"
	"go/ast"
	"go/token"
	"go/types"
	"sort"
	"strings"
)

// writes recorded during a dry run of a loop body
type writeLog struct {
	vars  map[*types.Var]bool
	heaps map[string]string // heap name -> value sort
	globs map[*types.Var]bool
	ghosts bool
	refs  map[string][]*Term // heap name -> references written (as evaluated during the dry run)
	whole map[string]bool    // heap name -> havocked as a whole
	mark  int                // number of SMT declarations when the dry run started
}

// any: the dry run wrote something (a variable of the enclosing function, the heap, a package-level variable, a ghost)
func (l *writeLog) any() bool {
	return l != nil && (len(l.vars) > 0 || len(l.heaps) > 0 || len(l.globs) > 0 || l.ghosts || len(l.whole) > 0)
}

func (c *FnCtx) execBlock(st *State, stmts []ast.Stmt) []Out {
	cur := []*State{st}
	var outs []Out
	for _, s := range stmts {
		var next []*State
		for _, s0 := range cur {
			for _, o := range c.execStmt(s0, s) {
				if o.flow == FNormal {
					next = append(next, o.st)
				} else {
					outs = append(outs, o)
				}
			}
		}
		cur = next
		if len(cur) > 4000 {
			c.unsupportedf(s, "path explosion (%d live paths)", len(cur))
		}
	}
	for _, s0 := range cur {
		outs = append(outs, Out{st: s0})
	}
	return outs
}

func (c *FnCtx) execStmt(st *State, s ast.Stmt) []Out {
	switch x := s.(type) {
	case *ast.EmptyStmt:
		return []Out{{st: st}}
	case *ast.BlockStmt:
		return c.execBlock(st, x.List)
	case *ast.ExprStmt:
		if call, ok := ast.Unparen(x.X).(*ast.CallExpr); ok {
			c.evalCall(st, call)
		} else {
			c.eval(st, x.X)
		}
		return []Out{{st: st}}
	case *ast.AssignStmt:
		c.execAssign(st, x)
		return []Out{{st: st}}
	case *ast.IncDecStmt:
		v := c.eval(st, x.X)
		d := intLit(1)
		if x.Tok == token.INC {
			c.assign(st, x.X, mkAdd(v, d))
		} else {
			c.assign(st, x.X, mkSub(v, d))
		}
		return []Out{{st: st}}
	case *ast.DeclStmt:
		gd := x.Decl.(*ast.GenDecl)
		if gd.Tok == token.VAR {
			for _, sp := range gd.Specs {
				vs := sp.(*ast.ValueSpec)
				var vals []*Term
				if len(vs.Values) == 1 && len(vs.Names) > 1 {
					vals = c.evalMulti(st, vs.Values[0])
				} else {
					for _, e := range vs.Values {
						vals = append(vals, c.eval(st, e))
					}
				}
				for i, n := range vs.Names {
					obj, _ := c.info.Defs[n].(*types.Var)
					if obj == nil {
						continue
					}
					var v *Term
					if i < len(vals) {
						var from types.Type
						if i < len(vs.Values) {
							from = c.typeOf(vs.Values[i])
						}
						v = c.convertTo(st, vals[i], from, obj.Type())
					} else {
						v = c.zero(obj.Type())
					}
					c.defineVar(st, obj, v)
				}
			}
		}
		return []Out{{st: st}}
	case *ast.ReturnStmt:
		var vals []*Term
		if len(x.Results) == 1 && len(c.curResults()) > 1 {
			vals = c.evalMulti(st, x.Results[0])
		} else {
			for i, e := range x.Results {
				if lit, ok := ast.Unparen(e).(*ast.FuncLit); ok {
					vals = append(vals, c.closureValue(lit))
					continue
				}
				v := c.eval(st, e)
				rs := c.curResults()
				if i < len(rs) {
					v = c.convertTo(st, v, c.typeOf(e), rs[i].Type())
				}
				vals = append(vals, v)
			}
		}
		if len(x.Results) == 0 {
			// named results
			for _, r := range c.curResults() {
				if r.Name() != "" && r.Name() != "_" {
					vals = append(vals, c.readVar(st, r, x))
				} else {
					vals = append(vals, c.zero(r.Type()))
				}
			}
		}
		st.ret = vals
		return []Out{{st: st, flow: FReturn}}
	case *ast.BranchStmt:
		label := ""
		if x.Label != nil {
			label = x.Label.Name
		}
		switch x.Tok {
		case token.BREAK:
			return []Out{{st: st, flow: FBreak, label: label}}
		case token.CONTINUE:
			return []Out{{st: st, flow: FContinue, label: label}}
		}
		c.unsupportedf(x, "branch statement %s", x.Tok)
	case *ast.LabeledStmt:
		// a label names the loop (or switch) it precedes: `break L` / `continue L` inside leave the statements in between
		// abruptly and are consumed by the statement that carries the label
		switch x.Stmt.(type) {
		case *ast.ForStmt, *ast.RangeStmt, *ast.SwitchStmt, *ast.TypeSwitchStmt:
			if c.labels == nil {
				c.labels = map[ast.Stmt]string{}
			}
			c.labels[x.Stmt] = x.Label.Name
			return c.execStmt(st, x.Stmt)
		}
		c.unsupportedf(x, "label on %T", x.Stmt)
	case *ast.IfStmt:
		return c.execIf(st, x)
	case *ast.SwitchStmt:
		return c.execSwitch(st, x)
	case *ast.TypeSwitchStmt:
		return c.execTypeSwitch(st, x)
	case *ast.ForStmt:
		return c.execFor(st, x)
	case *ast.RangeStmt:
		return c.execRange(st, x)
	}
	c.unsupportedf(s, "statement %T", s)
	return nil
}

func (c *FnCtx) curResults() []*types.Var {
	return c.resultStack[len(c.resultStack)-1]
}

func (c *FnCtx) evalMulti(st *State, e ast.Expr) []*Term {
	switch x := ast.Unparen(e).(type) {
	case *ast.CallExpr:
		return c.evalCall(st, x)
	case *ast.IndexExpr:
		// v, ok := m[k]
		if mt, ok := types.Unalias(c.typeOf(x.X)).Underlying().(*types.Map); ok {
			m := c.eval(st, x.X)
			k := c.eval(st, x.Index)
			v, present := c.mapLookup(st, m, mt, k)
			return []*Term{v, present}
		}
	case *ast.TypeAssertExpr:
		v, ok := c.evalTypeAssert(st, x)
		return []*Term{v, ok}
	}
	c.unsupportedf(e, "multi-value expression %T", e)
	return nil
}

func (c *FnCtx) defineVar(st *State, obj *types.Var, v *Term) {
	if c.log != nil {
		c.log.vars[obj] = true
	}
	if c.boxed[obj] {
		r := c.allocRef(st, "box_"+obj.Name())
		st.vars[obj] = r
		if isExtStruct(obj.Type()) && isLit(v, "0") {
			// a zero-valued variable of an external struct type (var b strings.Builder): the opaque identity of the value
			// is the variable's own address, so that b.M() and (&b).M() denote the same object and it is not nil
			v = r.withGo(obj.Type())
		}
		c.storeCell(st, r, obj.Type(), v)
		c.zeroGhostFields(st, r, obj.Type())
		return
	}
	st.vars[obj] = v.withGo(obj.Type())
}

// zeroGhostFields: the ghost fields of a freshly allocated zero-valued external struct are zero.
func (c *FnCtx) zeroGhostFields(st *State, r *Term, t types.Type) {
	n := ownerNamed(t)
	if n == nil || isRepoPkg(n.Obj().Pkg()) || n.Obj().Pkg() == nil {
		return
	}
	prefix := n.Obj().Pkg().Path() + "." + n.Obj().Name() + ".$"
	for key, ty := range c.eng.ghostFields {
		if strings.HasPrefix(key, prefix) {
			gt := c.resolveType(ty, &SExpr{Pos: "ghostfield " + key})
			srt := c.ts.sortOf(gt)
			c.heapWrite(st, "GH_"+sanitize(key), srt, r, c.zero(gt))
		}
	}
}

func (c *FnCtx) execAssign(st *State, x *ast.AssignStmt) {
	if x.Tok != token.ASSIGN && x.Tok != token.DEFINE {
		// compound assignment
		ops := map[token.Token]token.Token{token.ADD_ASSIGN: token.ADD, token.SUB_ASSIGN: token.SUB, token.MUL_ASSIGN: token.MUL, token.QUO_ASSIGN: token.QUO, token.REM_ASSIGN: token.REM}
		op, ok := ops[x.Tok]
		if !ok {
			c.unsupportedf(x, "assignment operator %s", x.Tok)
		}
		a := c.eval(st, x.Lhs[0])
		b := c.eval(st, x.Rhs[0])
		c.assign(st, x.Lhs[0], c.binop(st, op, a, b, c.typeOf(x.Lhs[0]), c.typeOf(x.Rhs[0]), x))
		return
	}
	var vals []*Term
	var froms []types.Type
	if len(x.Rhs) == 1 && len(x.Lhs) > 1 {
		vals = c.evalMulti(st, x.Rhs[0])
		froms = make([]types.Type, len(vals))
		if tup, ok := c.typeOf(x.Rhs[0]).(*types.Tuple); ok {
			for i := 0; i < tup.Len() && i < len(froms); i++ {
				froms[i] = tup.At(i).Type()
			}
		}
	} else {
		for _, e := range x.Rhs {
			if lit, ok := ast.Unparen(e).(*ast.FuncLit); ok {
				vals = append(vals, c.closureValue(lit))
			} else {
				vals = append(vals, c.eval(st, e))
			}
			froms = append(froms, c.typeOf(e))
		}
	}
	if len(vals) != len(x.Lhs) {
		c.unsupportedf(x, "assignment arity mismatch")
	}
	for i, l := range x.Lhs {
		id, isId := l.(*ast.Ident)
		if isId && id.Name == "_" {
			continue
		}
		if x.Tok == token.DEFINE && isId {
			if obj, ok := c.info.Defs[id].(*types.Var); ok && obj != nil {
				c.defineVar(st, obj, c.convertTo(st, vals[i], froms[i], obj.Type()))
				continue
			}
		}
		c.assign(st, l, c.convertTo(st, vals[i], froms[i], c.typeOf(l)))
	}
}

// assign stores val into the location denoted by lhs.
func (c *FnCtx) assign(st *State, lhs ast.Expr, val *Term) {
	switch l := ast.Unparen(lhs).(type) {
	case *ast.Ident:
		if l.Name == "_" {
			return
		}
		obj, _ := c.info.ObjectOf(l).(*types.Var)
		if obj == nil {
			c.unsupportedf(lhs, "assignment to %s", l.Name)
		}
		if c.log != nil {
			if c.isGlobal(obj) {
				c.log.globs[obj] = true
			} else {
				c.log.vars[obj] = true
			}
		}
		if c.isGlobal(obj) && !c.allowGlobalWrite {
			c.oblige(st, "frame:global", lhs, "", "write to package-level variable "+obj.Name(), tFalse)
		}
		c.writeVar(st, obj, val)
	case *ast.SelectorExpr:
		sel, ok := c.info.Selections[l]
		if !ok || sel.Kind() != types.FieldVal {
			// qualified global
			if obj, ok := c.info.ObjectOf(l.Sel).(*types.Var); ok && c.isGlobal(obj) {
				c.oblige(st, "frame:global", lhs, "", "write to package-level variable "+obj.Name(), tFalse)
				c.writeVar(st, obj, val)
				return
			}
			c.unsupportedf(lhs, "assignment to selector")
		}
		if g := c.rootGlobal(l.X); g != nil && !c.allowGlobalWrite {
			c.oblige(st, "frame:global", lhs, "", "write into package-level variable "+g.Name(), tFalse)
		}
		path := sel.Index()
		baseT := c.typeOf(l.X)
		// navigate to the struct that directly holds the field
		if len(path) > 1 {
			c.unsupportedf(lhs, "assignment through embedded field path")
		}
		s := structOf(deref(baseT))
		f := s.Field(path[0])
		if isPointer(baseT) {
			p := c.eval(st, l.X)
			c.nonNil(st, p, l, c.exprText(l))
			if !isRepoStruct(deref(baseT)) {
				c.unsupportedf(lhs, "write to a field of an external struct")
			}
			name := c.ts.sortOf(deref(baseT))
			c.heapWrite(st, fieldHeapName(name, f.Name()), c.ts.sortOf(f.Type()), p, val)
			return
		}
		if !isRepoStruct(baseT) {
			c.unsupportedf(lhs, "write to a field of an external struct value")
		}
		// a boxed local struct lives in the heap: write just the field
		if id, ok := ast.Unparen(l.X).(*ast.Ident); ok {
			if v, ok := c.info.ObjectOf(id).(*types.Var); ok && !c.isGlobal(v) && c.boxed[v] {
				name := c.ts.sortOf(baseT)
				c.heapWrite(st, fieldHeapName(name, f.Name()), c.ts.sortOf(f.Type()), st.vars[v], val)
				return
			}
		}
		// value struct: functional update of the containing location
		base := c.eval(st, l.X)
		c.assign(st, l.X, c.structSet(base, s, path[0], val))
	case *ast.IndexExpr:
		xt := c.typeOf(l.X)
		if g := c.rootGlobal(l.X); g != nil && !c.allowGlobalWrite {
			c.oblige(st, "frame:global", lhs, "", "write into package-level variable "+g.Name(), tFalse)
		}
		switch u := types.Unalias(xt).Underlying().(type) {
		case *types.Map:
			m := c.eval(st, l.X)
			k := c.eval(st, l.Index)
			c.mapStore(st, m, u, k, val, l)
		case *types.Slice:
			// x[i] = v for a local x that is created by make in this function and has no alias (never copied, sliced,
			// stored or passed; only indexed, measured and returned): a functional update of the local value
			id, ok := ast.Unparen(l.X).(*ast.Ident)
			var lv *types.Var
			if ok {
				lv, _ = c.info.ObjectOf(id).(*types.Var)
			}
			if lv == nil || c.isGlobal(lv) || c.boxed[lv] || !c.unaliasedMake(lv) {
				c.unsupportedf(lhs, "element store into a slice (aliasing of backing arrays is not modelled)")
			}
			sv := c.eval(st, l.X)
			i := c.eval(st, l.Index)
			c.oblige(st, "safe:idx", l, "", "index in range: "+c.exprText(l), mkAnd(mkLe(intLit(0), i), mkLt(i, c.sliceLen(sv))))
			st.assume(mkAnd(mkLe(intLit(0), i), mkLt(i, c.sliceLen(sv))))
			nv := c.nameSlice(st, c.mkSlice(sv.Sort, c.sliceLen(sv), mkStore(c.sliceArr(sv), i, val)), "upd")
			st.assume(mkEq(c.sliceAt(nv, i), val))
			c.assumptionsUsed["element stores into a local slice created by make and never aliased in the function are functional updates"] = true
			c.assign(st, l.X, nv.withGo(xt))
		default:
			c.unsupportedf(lhs, "index assignment on %s", xt)
		}
	case *ast.StarExpr:
		p := c.eval(st, l.X)
		c.nonNil(st, p, l, c.exprText(l))
		c.storeCell(st, p, deref(c.typeOf(l.X)), val)
	default:
		c.unsupportedf(lhs, "assignment target %T", lhs)
	}
}

func (c *FnCtx) execIf(st *State, x *ast.IfStmt) []Out {
	if x.Init != nil {
		outs := c.execStmt(st, x.Init)
		if len(outs) != 1 || outs[0].flow != FNormal {
			c.unsupportedf(x, "if-init with control flow")
		}
		st = outs[0].st
	}
	cond := c.eval(st, x.Cond)
	var outs []Out
	if os.Getenv("GVC_BRANCHCOVER") != "" && c.specDepth == 0 {
		// audit aid (not part of any registered check): is each outcome of this condition consistent with the assumptions?
		line := c.eng.fset.Position(x.Pos()).Line
		c.obls = append(c.obls, &Obligation{Func: c.fi.Key, Kind: "cover:branch", Site: x.Pos(), Sub: fmt.Sprintf("then@%d", line), Detail: "then-branch reachable", Assume: append(append([]*Term(nil), st.pc...), cond), Goal: tTrue, Cover: true})
		c.obls = append(c.obls, &Obligation{Func: c.fi.Key, Kind: "cover:branch", Site: x.Pos(), Sub: fmt.Sprintf("else@%d", line), Detail: "else-branch reachable", Assume: append(append([]*Term(nil), st.pc...), mkNot(cond)), Goal: tTrue, Cover: true})
	}
	if !isLit(cond, "false") {
		t := st.clone()
		t.pc = append(t.pc, cond)
		outs = append(outs, c.execBlock(t, x.Body.List)...)
	}
	if !isLit(cond, "true") {
		e := st
		e.pc = append(e.pc, mkNot(cond))
		if x.Else != nil {
			outs = append(outs, c.execStmt(e, x.Else)...)
		} else {
			outs = append(outs, Out{st: e})
		}
	}
	if c.contract != nil && c.contract.Merge {
		outs = c.mergeNormal(outs)
	}
	return outs
}

// mergeNormal joins the normal continuations of a branching statement into one state: the facts each path added
// after the common prefix of the path conditions become one disjunction of conjunctions, and every variable / heap
// version / ghost that differs gets a fresh name defined per path. Exact (no abstraction): the merged state denotes
// the union of the merged paths.
func (c *FnCtx) mergeNormal(outs []Out) []Out {
	var normal []Out
	var rest []Out
	for _, o := range outs {
		if o.flow == FNormal {
			normal = append(normal, o)
		} else {
			rest = append(rest, o)
		}
	}
	if len(normal) < 2 {
		return outs
	}
	base := normal[0].st
	// common prefix of the path conditions
	n := len(base.pc)
	for _, o := range normal[1:] {
		if len(o.st.guards) != len(base.guards) {
			return outs
		}
		k := 0
		for k < n && k < len(o.st.pc) && o.st.pc[k] == base.pc[k] {
			k++
		}
		n = k
	}
	m := base.clone()
	m.pc = append([]*Term(nil), base.pc[:n]...)
	m.ret = nil
	mergeRet := c.keepRet
	if mergeRet {
		for _, o := range normal {
			if len(o.st.ret) != len(base.ret) {
				return outs
			}
		}
	}
	extras := make([][]*Term, len(normal))
	for i, o := range normal {
		extras[i] = append([]*Term(nil), o.st.pc[n:]...)
	}
	def := func(i int, nt, v *Term) { extras[i] = append(extras[i], mkEq(nt, v)) }
	// variables in scope in every path (in a fixed order, so that the generated text is reproducible)
	var objs []types.Object
	for obj := range base.vars {
		objs = append(objs, obj)
	}
	sort.Slice(objs, func(i, j int) bool {
		if objs[i].Pos() != objs[j].Pos() {
			return objs[i].Pos() < objs[j].Pos()
		}
		return objs[i].Name() < objs[j].Name()
	})
	for _, obj := range objs {
		v0 := base.vars[obj]
		same, all := true, true
		for _, o := range normal[1:] {
			v, ok := o.st.vars[obj]
			if !ok {
				all = false
				break
			}
			if v != v0 && v.String() != v0.String() {
				same = false
			}
		}
		if !all {
			delete(m.vars, obj)
			continue
		}
		if same {
			continue
		}
		nt := c.smt.freshConst("mg_"+obj.Name(), v0.Sort)
		nt.GoT = v0.GoT
		for i, o := range normal {
			def(i, nt, o.st.vars[obj])
		}
		m.vars[obj] = nt
	}
	if mergeRet {
		for k := range base.ret {
			same := true
			for _, o := range normal[1:] {
				if o.st.ret[k].String() != base.ret[k].String() {
					same = false
				}
			}
			if same {
				m.ret = append(m.ret, base.ret[k])
				continue
			}
			nt := c.smt.freshConst("mg_ret", base.ret[k].Sort)
			nt.GoT = base.ret[k].GoT
			for i, o := range normal {
				def(i, nt, o.st.ret[k])
			}
			m.ret = append(m.ret, nt)
		}
	}
	mergeMap := func(get func(*State) map[string]*Term, prefix string) bool {
		names := map[string]bool{}
		for _, o := range normal {
			for k := range get(o.st) {
				names[k] = true
			}
		}
		var sorted []string
		for k := range names {
			sorted = append(sorted, k)
		}
		sort.Strings(sorted)
		for _, k := range sorted {
			// a heap first touched on some paths only: the other paths still have its initial version (created lazily,
			// one constant per function, recorded in the pre-state)
			ver := func(s *State) *Term {
				if v, ok := get(s)[k]; ok {
					return v
				}
				if c.pre != nil {
					if v, ok := get(c.pre)[k]; ok {
						return v
					}
				}
				return nil
			}
			v0 := ver(base)
			if v0 == nil {
				return false
			}
			same := true
			for _, o := range normal[1:] {
				v := ver(o.st)
				if v == nil {
					return false
				}
				if v != v0 && v.String() != v0.String() {
					same = false
				}
			}
			if same {
				get(m)[k] = v0
				continue
			}
			nt := c.smt.freshConst(prefix+k, v0.Sort)
			nt.GoT = v0.GoT
			for i, o := range normal {
				def(i, nt, ver(o.st))
			}
			get(m)[k] = nt
		}
		return true
	}
	if !mergeMap(func(s *State) map[string]*Term { return s.heap }, "mgh_") || !mergeMap(func(s *State) map[string]*Term { return s.ghost }, "mgg_") {
		return outs
	}
	// call-site results: kept only where every merged path made the call with the same results
	for k, v := range base.calls {
		same := true
		for _, o := range normal[1:] {
			w, ok := o.st.calls[k]
			if !ok || len(w) != len(v) {
				same = false
				break
			}
			for i := range v {
				if w[i] != v[i] && w[i].String() != v[i].String() {
					same = false
				}
			}
		}
		if same {
			if m.calls == nil {
				m.calls = map[string][]*Term{}
			}
			m.calls[k] = v
		}
	}
	sameAlloc := true
	for _, o := range normal[1:] {
		if (o.st.alloc == nil) != (base.alloc == nil) {
			return outs
		}
		if o.st.alloc != nil && o.st.alloc.String() != base.alloc.String() {
			sameAlloc = false
		}
	}
	if !sameAlloc {
		nt := c.smt.freshConst("mg_alloc", base.alloc.Sort)
		for i, o := range normal {
			def(i, nt, o.st.alloc)
		}
		m.alloc = nt
	}
	var disj []*Term
	for _, ex := range extras {
		disj = append(disj, mkAnd(ex...))
	}
	m.pc = append(m.pc, mkOr(disj...))
	return append(rest, Out{st: m})
}

func (c *FnCtx) execSwitch(st *State, x *ast.SwitchStmt) []Out {
	if x.Init != nil {
		outs := c.execStmt(st, x.Init)
		st = outs[0].st
	}
	var tag *Term
	if x.Tag != nil {
		tag = c.eval(st, x.Tag)
	}
	var outs []Out
	var negs []*Term
	var deflt *ast.CaseClause
	for _, cl := range x.Body.List {
		cc := cl.(*ast.CaseClause)
		if cc.List == nil {
			deflt = cc
			continue
		}
		var conds []*Term
		for _, e := range cc.List {
			v := c.eval(st, e)
			if tag != nil {
				conds = append(conds, mkEq(tag, v))
			} else {
				conds = append(conds, v)
			}
		}
		cond := mkOr(conds...)
		b := st.clone()
		b.pc = append(b.pc, negs...)
		b.pc = append(b.pc, cond)
		for _, o := range c.execBlock(b, cc.Body) {
			if o.flow == FBreak && (o.label == "" || o.label == c.labels[x]) {
				o.flow = FNormal
				o.label = ""
			}
			outs = append(outs, o)
		}
		negs = append(negs, mkNot(cond))
		if hasFallthrough(cc.Body) {
			c.unsupportedf(cc, "fallthrough")
		}
	}
	d := st
	d.pc = append(d.pc, negs...)
	if deflt != nil {
		for _, o := range c.execBlock(d, deflt.Body) {
			if o.flow == FBreak && (o.label == "" || o.label == c.labels[x]) {
				o.flow = FNormal
				o.label = ""
			}
			outs = append(outs, o)
		}
	} else {
		outs = append(outs, Out{st: d})
	}
	return outs
}

func hasFallthrough(body []ast.Stmt) bool {
	if len(body) == 0 {
		return false
	}
	b, ok := body[len(body)-1].(*ast.BranchStmt)
	return ok && b.Tok == token.FALLTHROUGH
}

func (c *FnCtx) execTypeSwitch(st *State, x *ast.TypeSwitchStmt) []Out {
	if x.Init != nil {
		outs := c.execStmt(st, x.Init)
		st = outs[0].st
	}
	var subject ast.Expr
	var bind *ast.Ident
	switch a := x.Assign.(type) {
	case *ast.ExprStmt:
		subject = a.X.(*ast.TypeAssertExpr).X
	case *ast.AssignStmt:
		subject = a.Rhs[0].(*ast.TypeAssertExpr).X
		bind = a.Lhs[0].(*ast.Ident)
	}
	_ = bind
	v := c.eval(st, subject)
	var outs []Out
	var negs []*Term
	var deflt *ast.CaseClause
	for _, cl := range x.Body.List {
		cc := cl.(*ast.CaseClause)
		if cc.List == nil {
			deflt = cc
			continue
		}
		var conds []*Term
		var single types.Type
		for _, e := range cc.List {
			if id, ok := e.(*ast.Ident); ok && id.Name == "nil" {
				conds = append(conds, mkEq(v, intLit(0)))
				continue
			}
			t := c.typeOf(e)
			_, ok := c.typeAssert(st, v, t, e)
			conds = append(conds, ok)
			single = t
		}
		cond := mkOr(conds...)
		b := st.clone()
		b.pc = append(b.pc, negs...)
		b.pc = append(b.pc, cond)
		if obj, ok := c.info.Implicits[cc].(*types.Var); ok {
			bound := v
			if len(cc.List) == 1 && single != nil {
				bv, _ := c.typeAssert(b, v, single, cc)
				bound = bv
				if isRefLike(single) {
					if _, isIface := types.Unalias(single).Underlying().(*types.Interface); !isIface {
						b.pc = append(b.pc, mkNot(mkEq(v, intLit(0))))
						bound = v
					}
				}
			}
			c.defineVar(b, obj, bound.withGo(obj.Type()))
		}
		for _, o := range c.execBlock(b, cc.Body) {
			if o.flow == FBreak && (o.label == "" || o.label == c.labels[x]) {
				o.flow = FNormal
				o.label = ""
			}
			outs = append(outs, o)
		}
		negs = append(negs, mkNot(cond))
	}
	d := st
	d.pc = append(d.pc, negs...)
	if deflt != nil {
		if obj, ok := c.info.Implicits[deflt].(*types.Var); ok {
			c.defineVar(d, obj, v.withGo(obj.Type()))
		}
		for _, o := range c.execBlock(d, deflt.Body) {
			if o.flow == FBreak && (o.label == "" || o.label == c.labels[x]) {
				o.flow = FNormal
				o.label = ""
			}
			outs = append(outs, o)
		}
	} else {
		outs = append(outs, Out{st: d})
	}
	return outs
}

// ---------------------------------------------------------------------------
// loops

// dryRun executes f on a scratch copy of st, discarding obligations, and returns what was written.
func (c *FnCtx) dryRun(st *State, f func(s *State)) *writeLog {
	saveLog := c.log
	saveObls := len(c.obls)
	c.log = &writeLog{vars: map[*types.Var]bool{}, heaps: map[string]string{}, globs: map[*types.Var]bool{}, refs: map[string][]*Term{}, whole: map[string]bool{}, mark: len(c.smt.decls)}
	c.dry++
	func() {
		defer func() {
			if r := recover(); r != nil {
				if _, ok := r.(unsupported); ok {
					c.dry--
					c.log = saveLog
					c.obls = c.obls[:saveObls]
					panic(r)
				}
				panic(r)
			}
		}()
		f(st.clone())
	}()
	c.dry--
	log := c.log
	c.obls = c.obls[:saveObls]
	c.log = saveLog
	if saveLog != nil {
		for k := range log.vars {
			saveLog.vars[k] = true
		}
		for k, v := range log.heaps {
			saveLog.heaps[k] = v
		}
		for k, v := range log.refs {
			saveLog.refs[k] = append(saveLog.refs[k], v...)
		}
		for k := range log.whole {
			saveLog.whole[k] = true
		}
		for k := range log.globs {
			saveLog.globs[k] = true
		}
		if log.ghosts {
			saveLog.ghosts = true
		}
	}
	return log
}

type frameItem struct {
	name  string
	entry *Term
}

// loopFrame states, for the arrays havocked as a whole, that locations allocated before the loop are unchanged.
func (c *FnCtx) loopFrame(st *State, items []frameItem, entryAlloc *Term) []*Term {
	var out []*Term
	c.lastFrameNames = nil
	for _, it := range items {
		cur := st.heap[it.name]
		if cur == nil || cur.String() == it.entry.String() {
			continue
		}
		c.quantN++
		r := leaf(fmt.Sprintf("lf!%d", c.quantN), SInt)
		out = append(out, mkForall([]Bound{{r.Op, SInt}}, mkImplies(mkAnd(mkLe(intLit(0), r), mkLe(r, entryAlloc)), mkEq(mkSelect(cur, r), mkSelect(it.entry, r))), []*Term{mkSelect(cur, r)}))
		c.lastFrameNames = append(c.lastFrameNames, it.name)
	}
	return out
}

func (c *FnCtx) havocWrites(st *State, log *writeLog) []frameItem {
	var wholesale []frameItem
	// deterministic order
	var vs []*types.Var
	for v := range log.vars {
		vs = append(vs, v)
	}
	sort.Slice(vs, func(i, j int) bool { return vs[i].Pos() < vs[j].Pos() })
	for _, v := range vs {
		if _, live := st.vars[v]; !live {
			continue // declared inside the loop
		}
		if c.boxed[v] {
			continue // contents live in the heap (havocked below), the reference itself is stable
		}
		st.vars[v] = c.freshOfType(st, "lv_"+v.Name(), v.Type())
	}
	var hs []string
	for h := range log.heaps {
		hs = append(hs, h)
	}
	sort.Strings(hs)
	// symbols that may change during the loop: names created by the dry run, and the current values of what it writes
	variant := map[string]bool{}
	for i := log.mark; i < len(c.smt.decls); i++ {
		variant[c.smt.decls[i].Name] = true
	}
	for _, v := range vs {
		if c.boxed[v] {
			continue // the variable holds a stable reference to its cell
		}
		if t, ok := st.vars[v]; ok {
			symbolsOf(t.String(), variant)
		}
	}
	for _, h := range hs {
		if t, ok := st.heap[h]; ok {
			variant[t.Op] = true
		}
	}
	for _, h := range hs {
		targeted := !log.whole[h] && len(log.refs[h]) > 0
		if targeted {
			for _, r := range log.refs[h] {
				syms := map[string]bool{}
				symbolsOf(r.String(), syms)
				for sname := range syms {
					if variant[sname] {
						targeted = false
					}
				}
			}
		}
		if !targeted {
			entry := c.heapArr(st, h, log.heaps[h])
			c.heapHavoc(st, h, log.heaps[h])
			wholesale = append(wholesale, frameItem{h, entry})
			continue
		}
		// only fixed locations are written by the loop: havoc exactly those
		done := map[string]bool{}
		saveLog := c.log
		c.log = nil
		for _, r := range log.refs[h] {
			if done[r.String()] {
				continue
			}
			done[r.String()] = true
			c.heapWrite(st, h, log.heaps[h], r, c.smt.freshConst("lh", log.heaps[h]))
		}
		c.log = saveLog
	}
	for g := range log.globs {
		name := "G:" + shortPkg(g.Pkg()) + "." + g.Name()
		st.heap[name] = c.freshOfType(st, "gv_"+g.Name(), g.Type())
	}
	if log.ghosts {
		if y, ok := st.ghost["$yielded"]; ok {
			st.ghost["$yielded"] = c.smt.freshConst("yielded", y.Sort).withGo(y.GoT)
			st.ghost["$stopped"] = c.smt.freshConst("stopped", SBool)
		}
	}
	na := c.smt.freshConst("alloc", SInt)
	st.pc = append(st.pc, mkLe(st.alloc, na))
	st.alloc = na
	return wholesale
}

type loopVars struct {
	env map[string]*Term
}

func (c *FnCtx) loopSpec(n ast.Node) (*LoopSpec, int) {
	ord := c.loopOrd[n]
	if c.contract == nil || c.sweep {
		return nil, ord
	}
	return c.contract.Loops[ord], ord
}

func (c *FnCtx) checkInvs(st *State, ls *LoopSpec, kind string, site ast.Node, ord int, env map[string]*Term) {
	if ls == nil {
		return
	}
	if kind == "inv-init" {
		ls.entry = st.clone()
	}
	saveEntry := c.curEntry
	c.curEntry = ls.entry
	defer func() { c.curEntry = saveEntry }()
	// later invariants may use earlier ones (each is proved before it is used)
	save := len(st.pc)
	for i, inv := range ls.Invs {
		c.hintMode++
		g := c.specEvalAt(st, inv.Expr, env, c.pre, site)
		c.hintMode--
		c.oblige(st, kind, site, fmt.Sprintf("loop%d.%d", ord, i+1), inv.Text, g)
		st.pc = append(st.pc, g)
	}
	st.pc = st.pc[:save]
}

func (c *FnCtx) assumeInvs(st *State, ls *LoopSpec, site ast.Node, env map[string]*Term) {
	if ls == nil {
		return
	}
	saveEntry := c.curEntry
	c.curEntry = ls.entry
	defer func() { c.curEntry = saveEntry }()
	for _, inv := range ls.Invs {
		c.hintMode++
		t := c.specEvalAt(st, inv.Expr, env, c.pre, site)
		c.hintMode--
		st.pc = append(st.pc, t)
	}
}

func (c *FnCtx) execFor(st *State, x *ast.ForStmt) []Out {
	if x.Init != nil {
		outs := c.execStmt(st, x.Init)
		st = outs[0].st
	}
	ls, ord := c.loopSpec(x)
	env := map[string]*Term{}
	c.checkInvs(st, ls, "inv-init", x, ord, env)
	log := c.dryRun(st, func(s *State) {
		if x.Cond != nil {
			c.eval(s, x.Cond)
		}
		outs := c.execBlock(s, x.Body.List)
		if x.Post != nil {
			for _, o := range outs {
				if o.flow == FNormal || o.flow == FContinue {
					c.execStmt(o.st, x.Post)
				}
			}
		}
	})
	entryAlloc := c.pre.alloc
	if ls != nil && ls.FrameEntry {
		entryAlloc = st.alloc
	}
	frames := c.havocWrites(st, log)
	useFrame := ls != nil && ls.Frame
	if useFrame {
		st.pc = append(st.pc, c.loopFrame(st, frames, entryAlloc)...)
	}
	c.assumeInvs(st, ls, x, env)
	var outs []Out
	cond := tTrue
	if x.Cond != nil {
		cond = c.eval(st, x.Cond)
	}
	// exit
	if !isLit(cond, "true") {
		e := st.clone()
		e.pc = append(e.pc, mkNot(cond))
		outs = append(outs, Out{st: e})
	}
	// iterate
	b := st
	b.pc = append(b.pc, cond)
	var dec0 *Term
	if ls != nil && ls.Dec != nil {
		dec0 = c.specEvalAt(b, ls.Dec.Expr, env, c.pre, x)
		c.oblige(b, "dec", x, fmt.Sprintf("loop%d.nonneg", ord), "measure non-negative: "+ls.Dec.Text, mkLe(intLit(0), dec0))
	} else if x.Cond != nil || true {
		c.noDecreases[ord] = true
	}
	bodyOuts := c.execBlock(b, x.Body.List)
	c.coverBody(bodyOuts, x)
	for _, o := range bodyOuts {
		if o.label != "" {
			if o.label != c.labels[x] {
				outs = append(outs, o) // jump to an enclosing labelled statement
				continue
			}
			o.label = ""
		}
		switch o.flow {
		case FNormal, FContinue:
			s := o.st
			if x.Post != nil {
				c.execStmt(s, x.Post)
			}
			c.checkInvs(s, ls, "inv-step", x, ord, env)
			if useFrame {
				for k, g := range c.loopFrame(s, frames, entryAlloc) {
					c.oblige(s, "inv-step", x, fmt.Sprintf("loop%d.frame%d", ord, k+1), "loop frame: locations allocated before the loop are unchanged in "+c.lastFrameNames[k], g)
				}
			}
			if dec0 != nil {
				d1 := c.specEvalAt(s, ls.Dec.Expr, env, c.pre, x)
				c.oblige(s, "dec", x, fmt.Sprintf("loop%d.decr", ord), "measure decreases: "+ls.Dec.Text, mkLt(d1, dec0))
			}
		case FBreak:
			outs = append(outs, Out{st: o.st})
		default:
			outs = append(outs, o)
		}
	}
	return outs
}

func (c *FnCtx) execRange(st *State, x *ast.RangeStmt) []Out {
	xt := c.typeOf(x.X)
	ls, ord := c.loopSpec(x)
	var seq *Term     // the iterated sequence (slice sort) or nil for integer ranges
	var n *Term       // number of iterations
	var elemKey func(s *State, i *Term) *Term
	var elemVal func(s *State, i *Term) *Term
	var keyT, valT types.Type
	switch u := types.Unalias(xt).Underlying().(type) {
	case *types.Slice, *types.Array:
		seq = c.eval(st, x.X)
		n = c.sliceLen(seq)
		elemKey = func(s *State, i *Term) *Term { return i }
		elemVal = func(s *State, i *Term) *Term { return c.sliceAt(seq, i) }
		keyT = types.Typ[types.Int]
		if sl, ok := u.(*types.Slice); ok {
			valT = sl.Elem()
		} else {
			valT = u.(*types.Array).Elem()
		}
	case *types.Basic:
		if u.Info()&types.IsInteger != 0 {
			n = c.eval(st, x.X)
			nn := n
			n = mkIte(mkLt(nn, intLit(0)), intLit(0), nn)
			elemKey = func(s *State, i *Term) *Term { return i }
			keyT = xt
		} else {
			c.unsupportedf(x, "range over string")
		}
	case *types.Map:
		m := c.eval(st, x.X)
		ks, _ := c.mapSorts(u)
		keys := c.smt.freshConst("mapkeys", c.ts.sliceSort(ks))
		dom := c.mapDom(st, m, u)
		val := c.mapVal(st, m, u)
		seq = keys
		n = c.sliceLen(keys)
		// keys enumerates the domain without repetition, in an arbitrary order
		st.pc = append(st.pc, mkImplies(mkEq(m, intLit(0)), mkEq(n, intLit(0))))
		c.quantN++
		i, j, k := leaf(fmt.Sprintf("ki!%d", c.quantN), SInt), leaf(fmt.Sprintf("kj!%d", c.quantN), SInt), leaf(fmt.Sprintf("kk!%d", c.quantN), ks)
		inb := func(t *Term) *Term { return mkAnd(mkLe(intLit(0), t), mkLt(t, n)) }
		st.pc = append(st.pc, mkForall([]Bound{{i.Op, SInt}}, mkImplies(inb(i), mkSelect(dom, c.sliceAt(keys, i))), []*Term{c.sliceAt(keys, i)}))
		st.pc = append(st.pc, mkForall([]Bound{{i.Op, SInt}, {j.Op, SInt}}, mkImplies(mkAnd(inb(i), inb(j), mkNot(mkEq(i, j))), mkNot(mkEq(c.sliceAt(keys, i), c.sliceAt(keys, j)))), []*Term{c.sliceAt(keys, i), c.sliceAt(keys, j)}))
		idxFn := c.smt.freshName("keyidx")
		c.smt.fun(idxFn, []string{ks}, SInt)
		st.pc = append(st.pc, mkForall([]Bound{{k.Op, ks}}, mkImplies(mkSelect(dom, k), mkAnd(inb(mk(idxFn, SInt, k)), mkEq(c.sliceAt(keys, mk(idxFn, SInt, k)), k))), []*Term{mkSelect(dom, k)}))
		elemKey = func(s *State, i *Term) *Term { return c.sliceAt(keys, i) }
		elemVal = func(s *State, i *Term) *Term { return mkSelect(val, c.sliceAt(keys, i)) }
		keyT, valT = u.Key(), u.Elem()
		c.mapRangeLoops++
		c.checkMapRangeOrder(st, x)
	case *types.Signature:
		// range over function iterator: the iterator value is a sequence
		seq = c.eval(st, x.X)
		if !c.ts.isSliceSort(seq.Sort) {
			c.unsupportedf(x, "range over function value that is not an iter.Seq")
		}
		n = c.sliceLen(seq)
		named, _ := types.Unalias(xt).(*types.Named)
		if named != nil && named.Origin().Obj().Name() == "Seq2" {
			ps := c.ts.elemSort(seq.Sort)
			ab := c.ts.pairOf[ps]
			elemKey = func(s *State, i *Term) *Term { return mk("fst_"+ps, ab[0], c.sliceAt(seq, i)) }
			elemVal = func(s *State, i *Term) *Term { return mk("snd_"+ps, ab[1], c.sliceAt(seq, i)) }
			keyT, valT = named.TypeArgs().At(0), named.TypeArgs().At(1)
		} else {
			elemKey = func(s *State, i *Term) *Term { return c.sliceAt(seq, i) }
			if named != nil {
				keyT = named.TypeArgs().At(0)
			} else {
				keyT = u.Params().At(0).Type().(*types.Signature).Params().At(0).Type()
			}
		}
	default:
		c.unsupportedf(x, "range over %s", xt)
	}
	env := map[string]*Term{"$n": n}
	if seq != nil {
		env["$seq"] = seq.withGo(xt)
	}
	env["$i"] = intLit(0)
	c.checkInvs(st, ls, "inv-init", x, ord, env)
	bind := func(s *State, i *Term) {
		set := func(e ast.Expr, v *Term, t types.Type) {
			if e == nil {
				return
			}
			id, ok := e.(*ast.Ident)
			if ok && id.Name == "_" {
				return
			}
			if t != nil {
				v = v.withGo(t)
			}
			if x.Tok == token.DEFINE && ok {
				if obj, ok := c.info.Defs[id].(*types.Var); ok {
					c.defineVar(s, obj, v)
					return
				}
			}
			c.assign(s, e, v)
		}
		set(x.Key, elemKey(s, i), keyT)
		if x.Value != nil {
			if elemVal == nil {
				c.unsupportedf(x, "range value on this kind of range")
			}
			ev := elemVal(s, i)
			c.extElemFacts(s, ev, valT)
			set(x.Value, ev, valT)
		}
	}
	if c.loopGhost == nil {
		c.loopGhost = map[string]*Term{}
	}
	if seq != nil {
		c.loopGhost[fmt.Sprintf("$seq%d", ord)] = seq.withGo(xt)
	}
	log := c.dryRun(st, func(s *State) {
		di := c.smt.freshConst("dry_i", SInt)
		c.loopGhost[fmt.Sprintf("$i%d", ord)] = di
		bind(s, di)
		c.execBlock(s, x.Body.List)
	})
	entryAlloc := c.pre.alloc
	if ls != nil && ls.FrameEntry {
		entryAlloc = st.alloc
	}
	frames := c.havocWrites(st, log)
	useFrame := ls != nil && ls.Frame
	if useFrame {
		st.pc = append(st.pc, c.loopFrame(st, frames, entryAlloc)...)
	}
	iv := c.smt.freshConst("i", SInt)
	st.pc = append(st.pc, mkLe(intLit(0), iv), mkLe(iv, n))
	env["$i"] = iv
	if c.loopGhost == nil {
		c.loopGhost = map[string]*Term{}
	}
	c.loopGhost[fmt.Sprintf("$i%d", ord)] = iv
	if seq != nil {
		c.loopGhost[fmt.Sprintf("$seq%d", ord)] = seq.withGo(xt)
	}
	c.assumeInvs(st, ls, x, env)
	var outs []Out
	e := st.clone()
	e.pc = append(e.pc, mkEq(iv, n))
	outs = append(outs, Out{st: e})
	b := st
	b.pc = append(b.pc, mkLt(iv, n))
	bind(b, iv)
	bodyOuts := c.execBlock(b, x.Body.List)
	c.coverBody(bodyOuts, x)
	for _, o := range bodyOuts {
		if o.label != "" {
			if o.label != c.labels[x] {
				outs = append(outs, o) // jump to an enclosing labelled statement
				continue
			}
			o.label = ""
		}
		switch o.flow {
		case FNormal, FContinue:
			env2 := map[string]*Term{}
			for k, v := range env {
				env2[k] = v
			}
			env2["$i"] = mkAdd(iv, intLit(1))
			c.checkInvs(o.st, ls, "inv-step", x, ord, env2)
			if useFrame {
				for k, g := range c.loopFrame(o.st, frames, entryAlloc) {
					c.oblige(o.st, "inv-step", x, fmt.Sprintf("loop%d.frame%d", ord, k+1), "loop frame: locations allocated before the loop are unchanged in "+c.lastFrameNames[k], g)
				}
			}
		case FBreak:
			outs = append(outs, Out{st: o.st})
		default:
			outs = append(outs, o)
		}
	}
	return outs
}

// ---------------------------------------------------------------------------
// function driver

// loopSignature: what a loop iterates over, as text - stable under edits elsewhere in the function.
func (c *FnCtx) loopSignature(x ast.Node) string {
	norm := func(s string) string { return strings.Join(strings.Fields(s), " ") }
	switch y := x.(type) {
	case *ast.RangeStmt:
		return "range " + norm(c.exprText(y.X))
	case *ast.ForStmt:
		sig := "for "
		if y.Cond != nil {
			sig += norm(c.exprText(y.Cond))
		}
		return sig
	}
	return ""
}

// numberLoops assigns the ordinals by which contracts name loops. Source order, except that the loop signatures recorded
// for the unchanged tree (contracts/loops.lock) are honoured: a loop whose signature is unique in the function keeps the
// ordinal it had when the contract was written, even if loops before it were added, removed or moved away.
func (c *FnCtx) numberLoops(body ast.Node) {
	var loops []ast.Node
	ast.Inspect(body, func(x ast.Node) bool {
		switch x.(type) {
		case *ast.ForStmt, *ast.RangeStmt:
			loops = append(loops, x)
		}
		return true
	})
	assigned := map[ast.Node]int{}
	rec := c.eng.loopLock[c.fi.Key]
	if len(c.inlineStack) == 0 && len(rec) > len(loops) {
		// fewer loops than on the recorded tree: a loop was removed, merged or moved into a helper
		c.loopsLost = true
	}
	if len(rec) > 0 && len(c.inlineStack) == 0 {
		cntR, cntC := map[string]int{}, map[string]int{}
		for _, s := range rec {
			cntR[s]++
		}
		sigOf := map[ast.Node]string{}
		for _, l := range loops {
			sigOf[l] = c.loopSignature(l)
			cntC[sigOf[l]]++
		}
		usedOrd := map[int]bool{}
		for _, l := range loops {
			s := sigOf[l]
			if cntR[s] == 1 && cntC[s] == 1 {
				for ord, rs := range rec {
					if rs == s {
						assigned[l] = ord
						usedOrd[ord] = true
					}
				}
			}
		}
		// the rest in source order over the remaining recorded ordinals; surplus loops get fresh ordinals
		var free []int
		for ord := 1; ord <= len(rec); ord++ {
			if _, ok := rec[ord]; ok && !usedOrd[ord] {
				free = append(free, ord)
			}
		}
		next := len(rec) + 1
		for _, l := range loops {
			if _, ok := assigned[l]; ok {
				continue
			}
			if len(free) > 0 {
				assigned[l] = free[0]
				free = free[1:]
			} else {
				assigned[l] = next
				next++
			}
		}
	}
	n := 0
	calls := map[string]int{}
	ast.Inspect(body, func(x ast.Node) bool {
		switch y := x.(type) {
		case *ast.ForStmt, *ast.RangeStmt:
			n++
			c.loopOrd[x] = n
			if a, ok := assigned[x]; ok {
				c.loopOrd[x] = a
			}
			if fs, ok := x.(*ast.ForStmt); ok && fs.Init != nil {
				if as, ok := fs.Init.(*ast.AssignStmt); ok && as.Tok == token.DEFINE && len(as.Lhs) == 1 {
					if id, ok := as.Lhs[0].(*ast.Ident); ok {
						if v, ok := c.info.ObjectOf(id).(*types.Var); ok {
							if c.loopInitVar == nil {
								c.loopInitVar = map[token.Pos]*types.Var{}
							}
							c.loopInitVar[fs.Pos()] = v
						}
					}
				}
			}
		case *ast.CallExpr:
			if name := c.calleeShort(y); name != "" {
				calls[name]++
				c.callOrd[y] = fmt.Sprintf("%s#%d", name, calls[name])
			}
		}
		return true
	})
	// fewer call sites of some callee than on the recorded tree: code was removed from the function or replaced (e.g. by
	// a call of a new helper) - together with a lost loop the sign that a contract-less helper may hold extracted code
	if len(c.inlineStack) == 0 {
		for name, cnt := range c.eng.callLock[c.fi.Key] {
			if calls[name] < cnt {
				c.loopsLost = true
			}
		}
	}
}

func (c *FnCtx) calleeShort(call *ast.CallExpr) string {
	switch f := ast.Unparen(call.Fun).(type) {
	case *ast.Ident:
		// a function of the same package
		if fn, ok := c.info.ObjectOf(f).(*types.Func); ok && fn.Pkg() != nil {
			return f.Name
		}
	case *ast.SelectorExpr:
		if id, ok := f.X.(*ast.Ident); ok {
			if _, isPkg := c.info.ObjectOf(id).(*types.PkgName); isPkg {
				return id.Name + "." + f.Sel.Name
			}
		}
		if sel, ok := c.info.Selections[f]; ok && sel.Kind() == types.MethodVal {
			if n := ownerNamed(sel.Recv()); n != nil {
				return n.Obj().Name() + "." + f.Sel.Name
			}
		}
		// a func-typed field of a struct, e.g. pass.ReadFile(...)
		if sel, ok := c.info.Selections[f]; ok && sel.Kind() == types.FieldVal {
			if _, isFunc := types.Unalias(sel.Type()).Underlying().(*types.Signature); isFunc {
				if n := ownerNamed(sel.Recv()); n != nil {
					return n.Obj().Name() + "." + f.Sel.Name
				}
			}
		}
	}
	return ""
}

// findBoxed: locals whose address is taken (explicitly or through pointer-receiver method calls).
func (c *FnCtx) findBoxed(body ast.Node) {
	mark := func(e ast.Expr) {
		for {
			switch y := ast.Unparen(e).(type) {
			case *ast.Ident:
				if v, ok := c.info.ObjectOf(y).(*types.Var); ok && !c.isGlobal(v) {
					c.boxed[v] = true
				}
				return
			case *ast.SelectorExpr:
				// &x.f where x is a value struct local: box x
				if sel, ok := c.info.Selections[y]; ok && sel.Kind() == types.FieldVal && !isPointer(c.typeOf(y.X)) {
					e = y.X
					continue
				}
				return
			default:
				return
			}
		}
	}
	ast.Inspect(body, func(x ast.Node) bool {
		switch y := x.(type) {
		case *ast.UnaryExpr:
			if y.Op == token.AND {
				if _, isLit := ast.Unparen(y.X).(*ast.CompositeLit); !isLit {
					if id, ok := ast.Unparen(y.X).(*ast.Ident); ok {
						mark(id)
					}
				}
			}
		case *ast.CallExpr:
			if f, ok := ast.Unparen(stripIndex(y.Fun)).(*ast.SelectorExpr); ok {
				if sel, ok := c.info.Selections[f]; ok && sel.Kind() == types.MethodVal {
					fn := sel.Obj().(*types.Func)
					declRecv := fn.Type().(*types.Signature).Recv().Type()
					if isPointer(declRecv) && !isPointer(c.typeOf(f.X)) {
						if id, ok := ast.Unparen(f.X).(*ast.Ident); ok {
							mark(id)
						}
					}
				}
			}
		}
		return true
	})
}

func (c *FnCtx) initialState() *State {
	st := &State{vars: map[types.Object]*Term{}, heap: map[string]*Term{}, ghost: map[string]*Term{}}
	st.alloc = c.smt.freshConst("alloc", SInt)
	st.pc = append(st.pc, mkLe(intLit(0), st.alloc))
	return st
}

func (c *FnCtx) bindParam(st *State, v *types.Var) {
	if v == nil || v.Name() == "" || v.Name() == "_" {
		return
	}
	val := c.freshOfType(st, "p_"+v.Name(), v.Type())
	if isRefLike(v.Type()) && c.ts.sortOf(v.Type()) == SInt {
		st.pc = append(st.pc, mkAnd(mkLe(intLit(0), val), mkLe(val, st.alloc)))
		if _, isPtr := types.Unalias(v.Type()).Underlying().(*types.Pointer); isPtr {
			st.pc = append(st.pc, mkImplies(mkNot(mkEq(val, intLit(0))), mkEq(mk("dyntype", "TypeTag", val), c.typeTag(v.Type()))))
		}
	}
	c.env[v.Name()] = val
	if c.boxed[v] {
		r := c.allocRef(st, "box_"+v.Name())
		st.vars[v] = r
		c.storeCell(st, r, v.Type(), val)
		return
	}
	st.vars[v] = val
}

// verify runs the symbolic execution of the function and collects obligations.
func (c *FnCtx) verify() (err error) {
	defer func() {
		if r := recover(); r != nil {
			if u, ok := r.(unsupported); ok {
				c.outside = append(c.outside, u.msg)
				err = fmt.Errorf("outside subset: %s", u.msg)
				return
			}
			// an internal error of the generator is a tool limit for this function, never a verdict
			msg := fmt.Sprintf("generator error: %v", r)
			if os.Getenv("GVC_STACK") != "" {
				msg += "\n" + string(debug.Stack())
			}
			c.outside = append(c.outside, msg)
			err = fmt.Errorf("outside subset: %s", msg)
			return
		}
	}()
	fd := c.fi.Decl
	if fd.Body == nil {
		return fmt.Errorf("no body")
	}
	c.numberLoops(fd.Body)
	c.findBoxed(fd.Body)
	sig := c.fi.Obj.Type().(*types.Signature)
	st := c.initialState()
	if sig.Recv() != nil {
		c.bindParam(st, sig.Recv())
		if isPointer(sig.Recv().Type()) && (c.contract == nil || !c.contract.NilRecv) && sig.Recv().Name() != "" && sig.Recv().Name() != "_" {
			st.pc = append(st.pc, mkNot(mkEq(c.env[sig.Recv().Name()], intLit(0))))
		}
	}
	for i := 0; i < sig.Params().Len(); i++ {
		p := sig.Params().At(i)
		c.bindParam(st, p)
		if isExtPointer(p.Type()) && p.Name() != "" && p.Name() != "_" && !(c.contract != nil && c.contract.nilable(p.Name())) {
			st.pc = append(st.pc, mkNot(mkEq(c.env[p.Name()], intLit(0))))
		}
	}
	var results []*types.Var
	for i := 0; i < sig.Results().Len(); i++ {
		r := sig.Results().At(i)
		results = append(results, r)
		if r.Name() != "" && r.Name() != "_" {
			c.defineVar(st, r, c.zero(r.Type()))
		}
	}
	c.resultStack = [][]*types.Var{results}
	if c.contract != nil {
		for _, g := range c.contract.Ghosts {
			gt := c.resolveType(g.Type, &SExpr{Pos: c.contract.Pos})
			gv := c.freshOfType(st, "g_"+g.Name, gt)
			if isRefLike(gt) && c.ts.sortOf(gt) == SInt {
				st.pc = append(st.pc, mkAnd(mkLe(intLit(0), gv), mkLe(gv, st.alloc)))
			}
			c.env[g.Name] = gv
		}
	}
	c.pre = st.clone()
	if c.contract != nil {
		env := c.entryEnv(st)
		c.applyLets(st, c.contract, env, nil)
		for _, r := range c.contract.Requires {
			st.pc = append(st.pc, c.specEvalAt(st, r.Expr, env, nil, fd))
		}
		c.pre = st.clone()
		// vacuity guard: the precondition must be satisfiable
		if !c.sweep {
			c.obls = append(c.obls, &Obligation{Func: c.fi.Key, Kind: "cover:pre", Site: fd.Pos(), Detail: "precondition satisfiable", Assume: append([]*Term(nil), st.pc...), Goal: tTrue, Cover: true})
		}
	}
	outs := c.execBlock(st, fd.Body.List)
	// vacuity guard: some way of leaving the function must be consistent with everything assumed on the way (library
	// contracts, callee postconditions, invariants, the memory model). If every path to a return is contradictory the
	// obligations of the function were discharged vacuously.
	{
		var pcs [][]*Term
		for _, o := range outs {
			if o.flow == FNormal || o.flow == FReturn {
				pc := o.st.pc
				if g := o.st.guard(); !isLit(g, "true") {
					pc = append(append([]*Term(nil), pc...), g)
				}
				pcs = append(pcs, pc)
			}
		}
		if len(pcs) > 0 && len(pcs) <= 64 {
			n := len(pcs[0])
			for _, pc := range pcs[1:] {
				k := 0
				for k < n && k < len(pc) && pc[k] == pcs[0][k] {
					k++
				}
				n = k
			}
			var disj []*Term
			for _, pc := range pcs {
				disj = append(disj, mkAnd(pc[n:]...))
			}
			c.obls = append(c.obls, &Obligation{Func: c.fi.Key, Kind: "cover:return", Site: fd.Pos(), Detail: "some path to a return is consistent with all assumptions made on it", Assume: append([]*Term(nil), pcs[0][:n]...), Goal: mkOr(disj...), Cover: true})
		}
	}
	for _, o := range outs {
		switch o.flow {
		case FNormal:
			if len(results) > 0 {
				// falling off the end of a function with results cannot happen in compiled code
				continue
			}
			c.checkPost(o.st, nil, fd)
		case FReturn:
			c.checkPost(o.st, o.st.ret, fd)
		default:
			c.unsupportedf(fd, "break/continue escaping function body")
		}
	}
	return nil
}

func (c *FnCtx) entryEnv(st *State) map[string]*Term {
	env := map[string]*Term{}
	for k, v := range c.env {
		env[k] = v
	}
	return env
}

func (c *FnCtx) checkPost(st *State, rets []*Term, site ast.Node) {
	if c.contract == nil || c.sweep {
		return
	}
	sig := c.fi.Obj.Type().(*types.Signature)
	// a returned closure of a producer: handled by the producer schema
	if len(rets) == 1 && strings.HasPrefix(rets[0].Op, "closure#") {
		c.runProducer(st, c.closures[rets[0].Op], site)
		return
	}
	env := c.entryEnv(st)
	c.bindResults(env, c.fi, sig, rets)
	c.applyLets(st, c.contract, env, c.pre)
	c.pathsToReturn++
	for i, en := range c.contract.Ensures {
		g := c.specEvalAt(st, en.Expr, env, c.pre, site)
		c.oblige(st, "post", c.fi.Decl, fmt.Sprintf("%d", i+1), en.Text, g)
		// later clauses may use earlier ones (each is proved before it is used)
		st.pc = append(st.pc, g)
	}
	c.checkFrame(st, site)
	if c.contract.Fresh && len(rets) > 0 && rets[0].Sort == SInt {
		c.oblige(st, "post", c.fi.Decl, "fresh", "result is freshly allocated", mkOr(mkEq(rets[0], intLit(0)), mkLt(c.pre.alloc, rets[0])))
	}
}


// unaliasedMake: local slice variable v is assigned only from make(...) and every other occurrence is x[i] (read or
// store), len(x), cap(x), `range x`, or a return operand.
func (c *FnCtx) unaliasedMake(v *types.Var) bool {
	if c.fi == nil || c.fi.Decl == nil || c.fi.Decl.Body == nil {
		return false
	}
	ok := true
	isMake := func(e ast.Expr) bool {
		call, isCall := ast.Unparen(e).(*ast.CallExpr)
		if !isCall {
			return false
		}
		id, isId := ast.Unparen(call.Fun).(*ast.Ident)
		if !isId {
			return false
		}
		b, isB := c.info.ObjectOf(id).(*types.Builtin)
		return isB && b.Name() == "make"
	}
	isV := func(e ast.Expr) bool {
		id, isId := ast.Unparen(e).(*ast.Ident)
		return isId && c.info.ObjectOf(id) == v
	}
	allowed := map[*ast.Ident]bool{}
	ast.Inspect(c.fi.Decl.Body, func(n ast.Node) bool {
		switch x := n.(type) {
		case *ast.AssignStmt:
			for i, l := range x.Lhs {
				if isV(l) {
					if len(x.Lhs) != len(x.Rhs) || !isMake(x.Rhs[i]) {
						ok = false
					}
					allowed[ast.Unparen(l).(*ast.Ident)] = true
				}
			}
		case *ast.ValueSpec:
			for i, nm := range x.Names {
				if c.info.ObjectOf(nm) == v {
					if len(x.Values) > 0 && (i >= len(x.Values) || !isMake(x.Values[i])) {
						ok = false
					}
					allowed[nm] = true
				}
			}
		case *ast.IndexExpr:
			if isV(x.X) {
				allowed[ast.Unparen(x.X).(*ast.Ident)] = true
			}
		case *ast.CallExpr:
			if id, isId := ast.Unparen(x.Fun).(*ast.Ident); isId && len(x.Args) == 1 && isV(x.Args[0]) {
				if b, isB := c.info.ObjectOf(id).(*types.Builtin); isB && (b.Name() == "len" || b.Name() == "cap") {
					allowed[ast.Unparen(x.Args[0]).(*ast.Ident)] = true
				}
			}
		case *ast.RangeStmt:
			if isV(x.X) {
				allowed[ast.Unparen(x.X).(*ast.Ident)] = true
			}
		case *ast.ReturnStmt:
			for _, r := range x.Results {
				if isV(r) {
					allowed[ast.Unparen(r).(*ast.Ident)] = true
				}
			}
		}
		return true
	})
	ast.Inspect(c.fi.Decl.Body, func(n ast.Node) bool {
		if id, isId := n.(*ast.Ident); isId && c.info.ObjectOf(id) == v && !allowed[id] {
			ok = false
		}
		return true
	})
	return ok
}


// rootGlobal: the package-level variable an lvalue expression is rooted in (g[i], g.f, g.f[i], ...), if any.
func (c *FnCtx) rootGlobal(e ast.Expr) *types.Var {
	for {
		switch y := ast.Unparen(e).(type) {
		case *ast.Ident:
			if v, ok := c.info.ObjectOf(y).(*types.Var); ok && c.isGlobal(v) {
				return v
			}
			return nil
		case *ast.SelectorExpr:
			if sel, ok := c.info.Selections[y]; ok && sel.Kind() == types.FieldVal {
				e = y.X
				continue
			}
			if v, ok := c.info.ObjectOf(y.Sel).(*types.Var); ok && c.isGlobal(v) {
				return v
			}
			return nil
		case *ast.IndexExpr:
			e = y.X
		case *ast.StarExpr:
			e = y.X
		default:
			return nil
		}
	}
}


// coverBody: vacuity guard for a loop - some path through the body (under the invariants and the loop condition) must be
// consistent with everything assumed on it; if every path is contradictory the step obligations were discharged vacuously.
func (c *FnCtx) coverBody(outs []Out, site ast.Node) {
	if c.log != nil || len(outs) == 0 || len(outs) > 48 {
		return
	}
	var pcs [][]*Term
	for _, o := range outs {
		pc := o.st.pc
		if g := o.st.guard(); !isLit(g, "true") {
			pc = append(append([]*Term(nil), pc...), g)
		}
		pcs = append(pcs, pc)
	}
	n := len(pcs[0])
	for _, pc := range pcs[1:] {
		k := 0
		for k < n && k < len(pc) && pc[k] == pcs[0][k] {
			k++
		}
		n = k
	}
	var disj []*Term
	for _, pc := range pcs {
		disj = append(disj, mkAnd(pc[n:]...))
	}
	c.obls = append(c.obls, &Obligation{Func: c.fi.Key, Kind: "cover:loop", Site: site.Pos(), Sub: fmt.Sprintf("loop%d", c.loopOrd[site]), Detail: "some path through the loop body is consistent with the invariants and all assumptions made on it", Assume: append([]*Term(nil), pcs[0][:n]...), Goal: mkOr(disj...), Cover: true})
}


// checkMapRangeOrder (C11): the iteration order of a map is unspecified, so the effect of a loop over a map must not
// depend on it. Flagged (obligation order:maprange, decided on the syntax): appending to a slice that outlives the loop
// and is not sorted afterwards, building a string, emitting output or reports, and returning a value computed from the
// current element. Sums, counters, set/map insertions and constant returns are order-independent.
func (c *FnCtx) checkMapRangeOrder(st *State, x *ast.RangeStmt) {
	if c.log != nil {
		return
	}
	outer := func(id *ast.Ident) bool {
		v, ok := c.info.ObjectOf(id).(*types.Var)
		if !ok {
			return false
		}
		return !(v.Pos() >= x.Body.Pos() && v.Pos() <= x.Body.End())
	}
	sortedLater := func(v types.Object) bool {
		found := false
		if c.fi == nil || c.fi.Decl == nil {
			return false
		}
		ast.Inspect(c.fi.Decl, func(n ast.Node) bool {
			call, ok := n.(*ast.CallExpr)
			if !ok || call.Pos() < x.End() {
				return true
			}
			if sel, ok := call.Fun.(*ast.SelectorExpr); ok {
				if pk, ok := sel.X.(*ast.Ident); ok && (pk.Name == "sort" || pk.Name == "slices") && strings.HasPrefix(sel.Sel.Name, "S") {
					for _, a := range call.Args {
						if id, ok := ast.Unparen(a).(*ast.Ident); ok && c.info.ObjectOf(id) == v {
							found = true
						}
					}
				}
			}
			return true
		})
		return found
	}
	flag := func(n ast.Node, what string) {
		c.oblige(st, "order:maprange", n, "", "the effect of a loop over a map does not depend on the iteration order: "+what, tFalse)
	}
	ast.Inspect(x.Body, func(n ast.Node) bool {
		switch y := n.(type) {
		case *ast.FuncLit:
			return false
		case *ast.AssignStmt:
			for i, r := range y.Rhs {
				if call, ok := ast.Unparen(r).(*ast.CallExpr); ok {
					if fid, ok := call.Fun.(*ast.Ident); ok && fid.Name == "append" && len(call.Args) > 0 {
						if id, ok := ast.Unparen(call.Args[0]).(*ast.Ident); ok && outer(id) && !sortedLater(c.info.ObjectOf(id)) {
							flag(y, "append to "+id.Name+", which is not sorted afterwards")
						}
					}
				}
				if y.Tok == token.ADD_ASSIGN && i < len(y.Lhs) {
					if id, ok := ast.Unparen(y.Lhs[i]).(*ast.Ident); ok && outer(id) && isStringType(c.typeOf(id)) {
						flag(y, "string "+id.Name+" built by concatenation")
					}
				}
			}
		case *ast.ReturnStmt:
			for _, r := range y.Results {
				switch z := ast.Unparen(r).(type) {
				case *ast.BasicLit:
				case *ast.Ident:
					if z.Name != "true" && z.Name != "false" && z.Name != "nil" && !outer(z) {
						flag(y, "returns a value taken from the current element")
					}
				default:
					flag(y, "returns a value computed inside the loop")
				}
			}
		case *ast.CallExpr:
			if sel, ok := y.Fun.(*ast.SelectorExpr); ok {
				nm := sel.Sel.Name
				if strings.HasPrefix(nm, "Report") || strings.HasPrefix(nm, "Print") || strings.HasPrefix(nm, "Fprint") || nm == "WriteString" || nm == "Write" {
					flag(y, "emits output ("+nm+") in map order")
				}
			}
		}
		return true
	})
}
