package main

import (
	"fmt"
	"strings"
	"unicode"
)

// ---------------------------------------------------------------------------
// Spec expression AST

type SExpr struct {
	Kind  string // ident, int, str, char, bool, nil, unary, binary, call, sel, index, slice, quant, old, cond, typeis
	Name  string // ident name / operator / field / quantifier kind
	Int   int64
	Str   string
	Args  []*SExpr
	Binds []SBind // quant
	Trigs [][]*SExpr // quant: explicit triggers
	Pos   string  // source location (file:line) for messages
}

type SBind struct {
	Name string
	Type string
}

func (e *SExpr) String() string {
	switch e.Kind {
	case "ident":
		return e.Name
	case "int":
		return fmt.Sprint(e.Int)
	case "str":
		return fmt.Sprintf("%q", e.Str)
	case "char":
		return fmt.Sprintf("'%c'", rune(e.Int))
	case "bool":
		return e.Name
	case "nil":
		return "nil"
	case "unary":
		return e.Name + e.Args[0].String()
	case "binary":
		return "(" + e.Args[0].String() + " " + e.Name + " " + e.Args[1].String() + ")"
	case "call":
		var as []string
		for _, a := range e.Args[1:] {
			as = append(as, a.String())
		}
		return e.Args[0].String() + "(" + strings.Join(as, ", ") + ")"
	case "sel":
		return e.Args[0].String() + "." + e.Name
	case "index":
		return e.Args[0].String() + "[" + e.Args[1].String() + "]"
	case "slice":
		lo, hi := "", ""
		if e.Args[1] != nil {
			lo = e.Args[1].String()
		}
		if e.Args[2] != nil {
			hi = e.Args[2].String()
		}
		return e.Args[0].String() + "[" + lo + ":" + hi + "]"
	case "quant":
		var bs []string
		for _, b := range e.Binds {
			bs = append(bs, b.Name+" "+b.Type)
		}
		return "(" + e.Name + " " + strings.Join(bs, ", ") + " :: " + e.Args[0].String() + ")"
	case "old":
		return "old(" + e.Args[0].String() + ")"
	case "cond":
		return "(" + e.Args[0].String() + " ? " + e.Args[1].String() + " : " + e.Args[2].String() + ")"
	case "typeis":
		return "typeis(" + e.Args[0].String() + ", " + e.Str + ")"
	}
	return "?" + e.Kind
}

// ---------------------------------------------------------------------------
// Lexer

type stok struct {
	kind string // id, int, str, char, op, eof
	text string
	ival int64
}

func slex(src string) ([]stok, error) {
	var out []stok
	i := 0
	for i < len(src) {
		c := src[i]
		switch {
		case c == ' ' || c == '\t' || c == '\n':
			i++
		case unicode.IsLetter(rune(c)) || c == '_' || c == '$':
			j := i + 1
			for j < len(src) && (unicode.IsLetter(rune(src[j])) || unicode.IsDigit(rune(src[j])) || src[j] == '_' || src[j] == '$') {
				j++
			}
			out = append(out, stok{kind: "id", text: src[i:j]})
			i = j
		case c >= '0' && c <= '9':
			j := i
			var v int64
			for j < len(src) && src[j] >= '0' && src[j] <= '9' {
				v = v*10 + int64(src[j]-'0')
				j++
			}
			out = append(out, stok{kind: "int", text: src[i:j], ival: v})
			i = j
		case c == '"':
			j := i + 1
			var sb strings.Builder
			for j < len(src) && src[j] != '"' {
				if src[j] == '\\' && j+1 < len(src) {
					j++
					switch src[j] {
					case 'n':
						sb.WriteByte('\n')
					case 't':
						sb.WriteByte('\t')
					case 'r':
						sb.WriteByte('\r')
					case '\\':
						sb.WriteByte('\\')
					case '"':
						sb.WriteByte('"')
					default:
						return nil, fmt.Errorf("bad escape in %q", src)
					}
					j++
					continue
				}
				sb.WriteByte(src[j])
				j++
			}
			if j >= len(src) {
				return nil, fmt.Errorf("unterminated string in %q", src)
			}
			out = append(out, stok{kind: "str", text: sb.String()})
			i = j + 1
		case c == '\'':
			// 'c' or '\t'
			j := i + 1
			var v byte
			if j < len(src) && src[j] == '\\' {
				j++
				switch src[j] {
				case 'n':
					v = '\n'
				case 't':
					v = '\t'
				case 'r':
					v = '\r'
				case '\\':
					v = '\\'
				case '\'':
					v = '\''
				default:
					return nil, fmt.Errorf("bad char escape in %q", src)
				}
			} else if j < len(src) {
				v = src[j]
			}
			j++
			if j >= len(src) || src[j] != '\'' {
				return nil, fmt.Errorf("bad char literal in %q", src)
			}
			out = append(out, stok{kind: "char", ival: int64(v)})
			i = j + 1
		default:
			ops := []string{"<==>", "==>", "::", "==", "!=", "<=", ">=", "&&", "||", "(", ")", "[", "]", ".", ",", ":", "?", "+", "-", "*", "/", "%", "<", ">", "!", "&", "{", "}"}
			matched := false
			for _, op := range ops {
				if strings.HasPrefix(src[i:], op) {
					out = append(out, stok{kind: "op", text: op})
					i += len(op)
					matched = true
					break
				}
			}
			if !matched {
				return nil, fmt.Errorf("unexpected character %q in spec %q", c, src)
			}
		}
	}
	out = append(out, stok{kind: "eof"})
	return out, nil
}

// ---------------------------------------------------------------------------
// Parser (precedence climbing)

type sparser struct {
	toks []stok
	p    int
	pos  string
}

func parseSpecExpr(src, pos string) (*SExpr, error) {
	toks, err := slex(src)
	if err != nil {
		return nil, err
	}
	ps := &sparser{toks: toks, pos: pos}
	e, err := ps.expr()
	if err != nil {
		return nil, fmt.Errorf("%s: %v (in %q)", pos, err, src)
	}
	if ps.peek().kind != "eof" {
		return nil, fmt.Errorf("%s: trailing tokens at %q in %q", pos, ps.peek().text, src)
	}
	return e, nil
}

func (p *sparser) peek() stok { return p.toks[p.p] }
func (p *sparser) next() stok { t := p.toks[p.p]; p.p++; return t }
func (p *sparser) isOp(s string) bool {
	t := p.peek()
	return t.kind == "op" && t.text == s
}
func (p *sparser) isID(s string) bool {
	t := p.peek()
	return t.kind == "id" && t.text == s
}
func (p *sparser) expect(s string) error {
	if !p.isOp(s) {
		return fmt.Errorf("expected %q, got %q", s, p.peek().text)
	}
	p.p++
	return nil
}

func (p *sparser) expr() (*SExpr, error) {
	if p.isID("forall") || p.isID("exists") {
		kind := p.next().text
		var binds []SBind
		for {
			if p.peek().kind != "id" {
				return nil, fmt.Errorf("expected bound variable name")
			}
			name := p.next().text
			// type: tokens up to ',' or '::'
			var ty strings.Builder
			depth := 0
			for {
				t := p.peek()
				if t.kind == "eof" {
					return nil, fmt.Errorf("unterminated quantifier binding")
				}
				if depth == 0 && t.kind == "op" && (t.text == "," || t.text == "::" || t.text == "{") {
					break
				}
				if t.kind == "op" && t.text == "[" {
					depth++
				}
				if t.kind == "op" && t.text == "]" {
					depth--
				}
				ty.WriteString(t.text)
				p.p++
			}
			binds = append(binds, SBind{name, ty.String()})
			if p.isOp(",") {
				p.p++
				continue
			}
			break
		}
		var trigs [][]*SExpr
		for p.isOp("{") {
			p.p++
			var group []*SExpr
			for !p.isOp("}") {
				t, err := p.cond()
				if err != nil {
					return nil, err
				}
				group = append(group, t)
				if p.isOp(",") {
					p.p++
				}
			}
			p.p++
			trigs = append(trigs, group)
		}
		if err := p.expect("::"); err != nil {
			return nil, err
		}
		body, err := p.expr()
		if err != nil {
			return nil, err
		}
		return &SExpr{Kind: "quant", Name: kind, Binds: binds, Trigs: trigs, Args: []*SExpr{body}, Pos: p.pos}, nil
	}
	return p.iff()
}

func (p *sparser) iff() (*SExpr, error) {
	l, err := p.implies()
	if err != nil {
		return nil, err
	}
	for p.isOp("<==>") {
		p.p++
		r, err := p.implies()
		if err != nil {
			return nil, err
		}
		l = &SExpr{Kind: "binary", Name: "<==>", Args: []*SExpr{l, r}, Pos: p.pos}
	}
	return l, nil
}

func (p *sparser) implies() (*SExpr, error) {
	l, err := p.cond()
	if err != nil {
		return nil, err
	}
	if p.isOp("==>") {
		p.p++
		var r *SExpr
		if p.isID("forall") || p.isID("exists") {
			r, err = p.expr()
		} else {
			r, err = p.implies()
		}
		if err != nil {
			return nil, err
		}
		return &SExpr{Kind: "binary", Name: "==>", Args: []*SExpr{l, r}, Pos: p.pos}, nil
	}
	return l, nil
}

func (p *sparser) cond() (*SExpr, error) {
	c, err := p.or()
	if err != nil {
		return nil, err
	}
	if p.isOp("?") {
		p.p++
		a, err := p.cond()
		if err != nil {
			return nil, err
		}
		if err := p.expect(":"); err != nil {
			return nil, err
		}
		b, err := p.cond()
		if err != nil {
			return nil, err
		}
		return &SExpr{Kind: "cond", Args: []*SExpr{c, a, b}, Pos: p.pos}, nil
	}
	return c, nil
}

func (p *sparser) binLevel(ops []string, sub func() (*SExpr, error)) (*SExpr, error) {
	l, err := sub()
	if err != nil {
		return nil, err
	}
	for {
		found := ""
		for _, op := range ops {
			if p.isOp(op) {
				found = op
			}
		}
		if found == "" {
			return l, nil
		}
		p.p++
		var r *SExpr
		if p.isID("forall") || p.isID("exists") {
			r, err = p.expr()
		} else {
			r, err = sub()
		}
		if err != nil {
			return nil, err
		}
		l = &SExpr{Kind: "binary", Name: found, Args: []*SExpr{l, r}, Pos: p.pos}
	}
}

func (p *sparser) or() (*SExpr, error) { return p.binLevel([]string{"||"}, p.and) }
func (p *sparser) and() (*SExpr, error) { return p.binLevel([]string{"&&"}, p.cmp) }
func (p *sparser) cmp() (*SExpr, error) {
	return p.binLevel([]string{"==", "!=", "<=", ">=", "<", ">"}, p.add)
}
func (p *sparser) add() (*SExpr, error) { return p.binLevel([]string{"+", "-"}, p.mul) }
func (p *sparser) mul() (*SExpr, error) { return p.binLevel([]string{"*", "/", "%"}, p.unary) }

func (p *sparser) unary() (*SExpr, error) {
	for _, op := range []string{"!", "-", "*", "&"} {
		if p.isOp(op) {
			p.p++
			x, err := p.unary()
			if err != nil {
				return nil, err
			}
			return &SExpr{Kind: "unary", Name: op, Args: []*SExpr{x}, Pos: p.pos}, nil
		}
	}
	return p.postfix()
}

func (p *sparser) postfix() (*SExpr, error) {
	x, err := p.primary()
	if err != nil {
		return nil, err
	}
	for {
		switch {
		case p.isOp("."):
			p.p++
			if p.isOp("(") { // type assertion-like: x.(T) not supported
				return nil, fmt.Errorf("x.(T) not supported in specs; use typeis")
			}
			if p.peek().kind != "id" {
				return nil, fmt.Errorf("expected field name after '.'")
			}
			x = &SExpr{Kind: "sel", Name: p.next().text, Args: []*SExpr{x}, Pos: p.pos}
		case p.isOp("["):
			p.p++
			var lo, hi *SExpr
			if !p.isOp(":") {
				lo, err = p.expr()
				if err != nil {
					return nil, err
				}
			}
			if p.isOp(":") {
				p.p++
				if !p.isOp("]") {
					hi, err = p.expr()
					if err != nil {
						return nil, err
					}
				}
				if err := p.expect("]"); err != nil {
					return nil, err
				}
				x = &SExpr{Kind: "slice", Args: []*SExpr{x, lo, hi}, Pos: p.pos}
			} else {
				if err := p.expect("]"); err != nil {
					return nil, err
				}
				x = &SExpr{Kind: "index", Args: []*SExpr{x, lo}, Pos: p.pos}
			}
		case p.isOp("("):
			p.p++
			args := []*SExpr{x}
			for !p.isOp(")") {
				a, err := p.expr()
				if err != nil {
					return nil, err
				}
				args = append(args, a)
				if p.isOp(",") {
					p.p++
				} else {
					break
				}
			}
			if err := p.expect(")"); err != nil {
				return nil, err
			}
			if x.Kind == "ident" && x.Name == "old" && len(args) == 2 {
				x = &SExpr{Kind: "old", Args: []*SExpr{args[1]}, Pos: p.pos}
			} else {
				x = &SExpr{Kind: "call", Args: args, Pos: p.pos}
			}
		default:
			return x, nil
		}
	}
}

func (p *sparser) primary() (*SExpr, error) {
	t := p.next()
	switch t.kind {
	case "int":
		return &SExpr{Kind: "int", Int: t.ival, Pos: p.pos}, nil
	case "str":
		return &SExpr{Kind: "str", Str: t.text, Pos: p.pos}, nil
	case "char":
		return &SExpr{Kind: "char", Int: t.ival, Pos: p.pos}, nil
	case "id":
		switch t.text {
		case "true", "false":
			return &SExpr{Kind: "bool", Name: t.text, Pos: p.pos}, nil
		case "nil":
			return &SExpr{Kind: "nil", Pos: p.pos}, nil
		case "typeis":
			// typeis(x, *ast.FuncDecl)
			if err := p.expect("("); err != nil {
				return nil, err
			}
			x, err := p.expr()
			if err != nil {
				return nil, err
			}
			if err := p.expect(","); err != nil {
				return nil, err
			}
			var ty strings.Builder
			for !p.isOp(")") {
				if p.peek().kind == "eof" {
					return nil, fmt.Errorf("unterminated typeis")
				}
				ty.WriteString(p.next().text)
			}
			p.p++
			return &SExpr{Kind: "typeis", Str: ty.String(), Args: []*SExpr{x}, Pos: p.pos}, nil
		}
		return &SExpr{Kind: "ident", Name: t.text, Pos: p.pos}, nil
	case "op":
		if t.text == "(" {
			e, err := p.expr()
			if err != nil {
				return nil, err
			}
			if err := p.expect(")"); err != nil {
				return nil, err
			}
			return e, nil
		}
	}
	return nil, fmt.Errorf("unexpected token %q", t.text)
}

// ---------------------------------------------------------------------------
// Contract files

type Clause struct {
	Kind string // requires, ensures, invariant, decreases
	Expr *SExpr
	Text string
	Pos  string
}

type LoopSpec struct {
	Invs  []Clause
	Asserts []Clause // at call F#k assert e
	Prunes *SExpr // ast.Inspect: the closure returns false exactly at nodes satisfying this expression over $node
	Dec   *Clause
	entry *State // run time: the state at the entry of the loop execution being checked (for atentry(e))
	FrameEntry bool // like Frame, relative to the allocation state at loop entry (locations allocated before the loop)
	Frame bool // heap locations allocated before the function was entered keep, across the loop, the values they had at loop entry (unless written through loop-invariant references)
}

type Contract struct {
	Merge     bool   // join the states after if statements (fewer, larger paths)
	Key       string // "pkgpath.Recv.Name" or "pkgpath.Name"
	Pos       string
	Props     []string
	Requires  []Clause
	Ensures   []Clause
	Assigns   []*SExpr
	AssignsOK bool // an assigns clause was given
	Fresh     bool // result is freshly allocated
	Pure      bool
	Trusted   bool                 // contract is assumed, body not verified (library or out-of-subset)
	Loops     map[int]*LoopSpec    // by loop ordinal (1-based, source order, all loop kinds)
	Inspects  map[string]*LoopSpec // higher-order call schemas by "<callee>#<n>"
	NilRecv   bool                 // the method may be called on a nil receiver
	NilableParams []string         // external-pointer parameters that may be nil
	Ghosts    []SBind              // specification-only parameters
	Impure    bool                 // library: results are not a function of the arguments
	Nullable  bool                 // library: result may be nil
	NonNil    bool                 // library: result is never nil
	Params    []SBind              // library/spec functions: parameter names and types
	Result    string               // library/spec functions: result type
	Lets      []LetDef             // ghost definitions usable in the clauses of this contract
}

type LetDef struct {
	Name string
	Expr *SExpr
}

type SpecFunc struct {
	Name   string
	Params []SBind
	Result string
	Body   *SExpr // nil for ghost (uninterpreted)
	Rec    bool
	Macro  bool // expanded in place instead of being defined as an SMT function
	Pos    string
	Pkg    string
}

type AxiomSpec struct {
	Name  string
	Expr  *SExpr
	Pos   string
	Pkg   string
	Lemma bool
	Props []string
}

type SpecFile struct {
	Pkg       string // package path the file belongs to ("" for library specs)
	Contracts []*Contract
	Funcs     []*SpecFunc
	Axioms    []*AxiomSpec
	Nullable  map[string]bool // library: nullable external fields "pkg.Type.Field"
	GhostFields map[string]string // "pkg.Type.$name" -> type
	Evaluated []string // package-level variables whose initial value is obtained by running the real initialiser
}

var clauseKeywords = map[string]bool{
	"func": true, "requires": true, "ensures": true, "assigns": true, "fresh": true, "pure": true,
	"trusted": true, "loop": true, "at": true, "ghost": true, "axiom": true, "lemma": true, "props": true,
	"nullable": true, "nonnil": true, "let": true, "nullablefield": true, "impure": true, "ghostfield": true, "nilrecv": true, "evaluated": true, "macro": true, "nilable": true, "ghostparam": true, "merge": true,
}

// parseSpecLines parses the `//@` lines of a contract file. lines are (text, pos) with the `//@` stripped.
func parseSpecLines(pkg string, lines []string, poss []string) (*SpecFile, error) {
	sf := &SpecFile{Pkg: pkg, Nullable: map[string]bool{}}
	// join continuation lines
	type item struct{ text, pos string }
	var items []item
	for i, l := range lines {
		t := strings.TrimSpace(l)
		if t == "" || strings.HasPrefix(t, "#") {
			continue
		}
		first := t
		if j := strings.IndexAny(t, " \t:("); j >= 0 {
			first = t[:j]
		}
		if clauseKeywords[first] || len(items) == 0 {
			items = append(items, item{t, poss[i]})
		} else {
			items[len(items)-1].text += " " + t
		}
	}
	var cur *Contract
	for _, it := range items {
		t := it.text
		word, rest := t, ""
		if j := strings.IndexAny(t, " \t"); j >= 0 {
			word, rest = t[:j], strings.TrimSpace(t[j:])
		}
		perr := func(err error) error { return fmt.Errorf("%s: %v", it.pos, err) }
		switch word {
		case "func":
			cur = &Contract{Pos: it.pos, Loops: map[int]*LoopSpec{}, Inspects: map[string]*LoopSpec{}}
			// forms: "Name", "Recv.Name", "pkg/path.Name", optionally followed by "(a T, b U) R" for library functions
			name := rest
			if j := strings.Index(rest, "("); j >= 0 {
				name = strings.TrimSpace(rest[:j])
				params, result, err := parseSig(rest[j:])
				if err != nil {
					return nil, perr(err)
				}
				cur.Params, cur.Result = params, result
			}
			if pkg != "" {
				cur.Key = pkg + "." + name
			} else {
				cur.Key = name
			}
			sf.Contracts = append(sf.Contracts, cur)
		case "props":
			if cur == nil {
				return nil, perr(fmt.Errorf("props outside func"))
			}
			cur.Props = append(cur.Props, strings.Fields(strings.ReplaceAll(rest, ",", " "))...)
		case "requires", "ensures":
			if cur == nil {
				return nil, perr(fmt.Errorf("%s outside func", word))
			}
			e, err := parseSpecExpr(rest, it.pos)
			if err != nil {
				return nil, err
			}
			c := Clause{Kind: word, Expr: e, Text: rest, Pos: it.pos}
			if word == "requires" {
				cur.Requires = append(cur.Requires, c)
			} else {
				cur.Ensures = append(cur.Ensures, c)
			}
		case "let":
			if cur == nil {
				return nil, perr(fmt.Errorf("let outside func"))
			}
			j := strings.Index(rest, "=")
			if j < 0 {
				return nil, perr(fmt.Errorf("let needs '='"))
			}
			e, err := parseSpecExpr(rest[j+1:], it.pos)
			if err != nil {
				return nil, err
			}
			cur.Lets = append(cur.Lets, LetDef{strings.TrimSpace(rest[:j]), e})
		case "assigns":
			if cur == nil {
				return nil, perr(fmt.Errorf("assigns outside func"))
			}
			cur.AssignsOK = true
			if strings.TrimSpace(rest) == "nothing" {
				break
			}
			for _, part := range splitTop(rest, ',') {
				e, err := parseSpecExpr(strings.TrimSpace(part), it.pos)
				if err != nil {
					return nil, err
				}
				cur.Assigns = append(cur.Assigns, e)
			}
		case "fresh":
			cur.Fresh = true
		case "pure":
			if strings.HasPrefix(rest, "func") {
				f, err := parseSpecFunc(strings.TrimSpace(rest[4:]), it.pos, pkg)
				if err != nil {
					return nil, err
				}
				sf.Funcs = append(sf.Funcs, f)
			} else if cur != nil {
				cur.Pure = true
				cur.AssignsOK = true
			}
		case "macro":
			if !strings.HasPrefix(rest, "func") {
				return nil, perr(fmt.Errorf("macro must be followed by func"))
			}
			f, err := parseSpecFunc(strings.TrimSpace(rest[4:]), it.pos, pkg)
			if err != nil {
				return nil, err
			}
			f.Macro = true
			sf.Funcs = append(sf.Funcs, f)
		case "ghost":
			if !strings.HasPrefix(rest, "func") {
				return nil, perr(fmt.Errorf("ghost must be followed by func"))
			}
			f, err := parseSpecFunc(strings.TrimSpace(rest[4:]), it.pos, pkg)
			if err != nil {
				return nil, err
			}
			if f.Body != nil {
				return nil, perr(fmt.Errorf("ghost func must not have a body"))
			}
			sf.Funcs = append(sf.Funcs, f)
		case "trusted":
			cur.Trusted = true
		case "nullable":
			cur.Nullable = true
		case "nonnil":
			cur.NonNil = true
		case "impure":
			cur.Impure = true
		case "ghostparam":
			// ghostparam name type : a specification-only parameter, bound at call sites to the caller's variable,
			// parameter or ghost parameter of the same name
			f := strings.Fields(rest)
			if len(f) != 2 {
				return nil, perr(fmt.Errorf("ghostparam needs a name and a type"))
			}
			cur.Ghosts = append(cur.Ghosts, SBind{f[0], f[1]})
		case "nilrecv":
			cur.NilRecv = true
		case "merge":
			// merge: the two normal continuations of an if statement are joined into one symbolic state
			cur.Merge = true
		case "nilable":
			cur.NilableParams = append(cur.NilableParams, strings.Fields(strings.ReplaceAll(rest, ",", " "))...)
		case "ghostfield":
			// ghostfield pkg.Type.$name sort
			f := strings.Fields(rest)
			if len(f) != 2 {
				return nil, perr(fmt.Errorf("ghostfield needs a qualified name and a type"))
			}
			if sf.GhostFields == nil {
				sf.GhostFields = map[string]string{}
			}
			sf.GhostFields[f[0]] = f[1]
		case "evaluated":
			sf.Evaluated = append(sf.Evaluated, strings.Fields(strings.ReplaceAll(rest, ",", " "))...)
		case "nullablefield":
			for _, f := range strings.Fields(strings.ReplaceAll(rest, ",", " ")) {
				sf.Nullable[f] = true
			}
		case "loop":
			// loop N invariant e | loop N decreases e
			parts := strings.SplitN(rest, " ", 3)
			if len(parts) == 3 && parts[1] == "frame" && parts[2] == "entry" {
				var n int
				fmt.Sscanf(parts[0], "%d", &n)
				if cur.Loops[n] == nil {
					cur.Loops[n] = &LoopSpec{}
				}
				cur.Loops[n].Frame = true
				cur.Loops[n].FrameEntry = true
				break
			}
			if len(parts) == 2 && parts[1] == "frame" {
				var n int
				fmt.Sscanf(parts[0], "%d", &n)
				if cur.Loops[n] == nil {
					cur.Loops[n] = &LoopSpec{}
				}
				cur.Loops[n].Frame = true
				break
			}
			if len(parts) < 3 {
				return nil, perr(fmt.Errorf("bad loop clause"))
			}
			var n int
			fmt.Sscanf(parts[0], "%d", &n)
			e, err := parseSpecExpr(parts[2], it.pos)
			if err != nil {
				return nil, err
			}
			ls := cur.Loops[n]
			if ls == nil {
				ls = &LoopSpec{}
				cur.Loops[n] = ls
			}
			c := Clause{Kind: parts[1], Expr: e, Text: parts[2], Pos: it.pos}
			if parts[1] == "invariant" {
				ls.Invs = append(ls.Invs, c)
			} else if parts[1] == "decreases" {
				ls.Dec = &c
			} else {
				return nil, perr(fmt.Errorf("bad loop clause kind %q", parts[1]))
			}
		case "at":
			// at call ast.Inspect#1 invariant e
			parts := strings.SplitN(rest, " ", 4)
			if len(parts) >= 3 && parts[0] == "call" && parts[2] == "frame" {
				if cur.Inspects[parts[1]] == nil {
					cur.Inspects[parts[1]] = &LoopSpec{}
				}
				cur.Inspects[parts[1]].Frame = true
				cur.Inspects[parts[1]].FrameEntry = len(parts) == 4 && parts[3] == "entry"
				break
			}
			if len(parts) == 4 && parts[0] == "call" && parts[2] == "prunes" {
				e, err := parseSpecExpr(parts[3], it.pos)
				if err != nil {
					return nil, err
				}
				if cur.Inspects[parts[1]] == nil {
					cur.Inspects[parts[1]] = &LoopSpec{}
				}
				cur.Inspects[parts[1]].Prunes = e
				break
			}
			if len(parts) == 4 && parts[0] == "call" && parts[2] == "assert" {
				// at call F#k assert e: e holds (over the locals in scope) whenever control reaches that call
				e, err := parseSpecExpr(parts[3], it.pos)
				if err != nil {
					return nil, err
				}
				if cur.Inspects[parts[1]] == nil {
					cur.Inspects[parts[1]] = &LoopSpec{}
				}
				cur.Inspects[parts[1]].Asserts = append(cur.Inspects[parts[1]].Asserts, Clause{Kind: "assert", Expr: e, Text: parts[3], Pos: it.pos})
				break
			}
			if len(parts) < 4 || parts[0] != "call" || parts[2] != "invariant" {
				return nil, perr(fmt.Errorf("bad 'at call' clause"))
			}
			e, err := parseSpecExpr(parts[3], it.pos)
			if err != nil {
				return nil, err
			}
			ls := cur.Inspects[parts[1]]
			if ls == nil {
				ls = &LoopSpec{}
				cur.Inspects[parts[1]] = ls
			}
			ls.Invs = append(ls.Invs, Clause{Kind: "invariant", Expr: e, Text: parts[3], Pos: it.pos})
		case "axiom", "lemma":
			j := strings.Index(rest, ":")
			if j < 0 {
				return nil, perr(fmt.Errorf("%s needs a name followed by ':'", word))
			}
			head := strings.Fields(rest[:j])
			e, err := parseSpecExpr(rest[j+1:], it.pos)
			if err != nil {
				return nil, err
			}
			ax := &AxiomSpec{Name: head[0], Expr: e, Pos: it.pos, Pkg: pkg, Lemma: word == "lemma"}
			if len(head) > 1 {
				ax.Props = head[1:]
			}
			sf.Axioms = append(sf.Axioms, ax)
		default:
			return nil, perr(fmt.Errorf("unknown clause %q", word))
		}
	}
	return sf, nil
}

// splitTop splits s at separator characters not nested in brackets.
func splitTop(s string, sep byte) []string {
	var out []string
	depth := 0
	last := 0
	for i := 0; i < len(s); i++ {
		switch s[i] {
		case '(', '[', '{':
			depth++
		case ')', ']', '}':
			depth--
		default:
			if s[i] == sep && depth == 0 {
				out = append(out, s[last:i])
				last = i + 1
			}
		}
	}
	out = append(out, s[last:])
	return out
}

// parseSig parses "(a T, b U) R".
func parseSig(s string) ([]SBind, string, error) {
	s = strings.TrimSpace(s)
	if !strings.HasPrefix(s, "(") {
		return nil, "", fmt.Errorf("expected '(' in signature %q", s)
	}
	depth := 0
	end := -1
	for i := 0; i < len(s); i++ {
		if s[i] == '(' {
			depth++
		}
		if s[i] == ')' {
			depth--
			if depth == 0 {
				end = i
				break
			}
		}
	}
	if end < 0 {
		return nil, "", fmt.Errorf("unbalanced signature %q", s)
	}
	var params []SBind
	inner := strings.TrimSpace(s[1:end])
	if inner != "" {
		for _, p := range splitTop(inner, ',') {
			f := strings.Fields(strings.TrimSpace(p))
			if len(f) < 2 {
				return nil, "", fmt.Errorf("bad parameter %q", p)
			}
			params = append(params, SBind{f[0], strings.Join(f[1:], "")})
		}
	}
	return params, strings.TrimSpace(s[end+1:]), nil
}

// parseSpecFunc parses "name(a T, b U) R = expr" or without "= expr".
func parseSpecFunc(s, pos, pkg string) (*SpecFunc, error) {
	j := strings.Index(s, "(")
	if j < 0 {
		return nil, fmt.Errorf("%s: bad spec function %q", pos, s)
	}
	name := strings.TrimSpace(s[:j])
	rest := s[j:]
	body := ""
	// find " = " at top level after the signature
	depth := 0
	eq := -1
	for i := 0; i < len(rest); i++ {
		switch rest[i] {
		case '(', '[':
			depth++
		case ')', ']':
			depth--
		case '=':
			if depth == 0 && (i+1 >= len(rest) || rest[i+1] != '=') && (i == 0 || (rest[i-1] != '=' && rest[i-1] != '!' && rest[i-1] != '<' && rest[i-1] != '>')) {
				eq = i
			}
		}
		if eq >= 0 {
			break
		}
	}
	sig := rest
	if eq >= 0 {
		sig = rest[:eq]
		body = rest[eq+1:]
	}
	params, result, err := parseSig(sig)
	if err != nil {
		return nil, fmt.Errorf("%s: %v", pos, err)
	}
	f := &SpecFunc{Name: name, Params: params, Result: result, Pos: pos, Pkg: pkg}
	if strings.HasPrefix(result, "rec ") {
		f.Rec = true
		f.Result = strings.TrimSpace(result[4:])
	}
	if body != "" {
		e, err := parseSpecExpr(body, pos)
		if err != nil {
			return nil, err
		}
		f.Body = e
	}
	return f, nil
}
