package main

import (
	"context"
	"fmt"
	"os"
	"os/exec"
	"path/filepath"
	"regexp"
	"strings"
	"sync"
	"time"
)

type SolveResult struct {
	Status  string // unsat, sat, unknown, timeout, error
	Solver  string
	Seconds float64
	Output  string // raw output (truncated)
	Model   map[string]string
	Tried   []string
}

type solverSpec struct {
	name string
	args func(file string, timeoutS int) []string
}

var solvers = map[string]solverSpec{
	"z3-new/em": {"z3-new/em", func(f string, t int) []string {
		return []string{"z3-new", fmt.Sprintf("-T:%d", t), "smt.auto_config=false", "smt.mbqi=false", "smt.candidate_models=true", "-smt2", f}
	}},
	// E-matching without relevancy filtering: instantiates on terms below disjunctions that the search has not yet
	// made relevant (needed for merged paths, whose facts are disjunctions)
	"z3-new/em0": {"z3-new/em0", func(f string, t int) []string {
		return []string{"z3-new", fmt.Sprintf("-T:%d", t), "smt.auto_config=false", "smt.mbqi=false", "smt.relevancy=0", "-smt2", f}
	}},
	"z3-new/short": {"z3-new", func(f string, t int) []string { return []string{"z3-new", fmt.Sprintf("-T:%d", t), "-smt2", f} }},
	"z3-new": {"z3-new", func(f string, t int) []string { return []string{"z3-new", fmt.Sprintf("-T:%d", t), "-smt2", f} }},
	"z3":     {"z3", func(f string, t int) []string { return []string{"z3", fmt.Sprintf("-T:%d", t), "-smt2", f} }},
	"cvc5":   {"cvc5", func(f string, t int) []string { return []string{"cvc5", fmt.Sprintf("--tlimit=%d", t*1000), "--produce-models", f} }},
}

func runSolver(name, file string, timeoutS int) SolveResult {
	sp := solvers[name]
	args := sp.args(file, timeoutS)
	ctx, cancel := context.WithTimeout(context.Background(), time.Duration(timeoutS+2)*time.Second)
	defer cancel()
	t0 := time.Now()
	cmd := exec.CommandContext(ctx, args[0], args[1:]...)
	out, _ := cmd.CombinedOutput()
	el := time.Since(t0).Seconds()
	s := string(out)
	// skip solver warnings in front of the verdict
	for strings.HasPrefix(strings.TrimSpace(s), "WARNING") {
		s = strings.TrimSpace(s)
		if i := strings.IndexByte(s, '\n'); i >= 0 {
			s = s[i+1:]
		} else {
			s = ""
		}
	}
	first := strings.TrimSpace(s)
	if i := strings.IndexByte(first, '\n'); i >= 0 {
		first = strings.TrimSpace(first[:i])
	}
	r := SolveResult{Solver: name, Seconds: el, Output: truncate(s, 6000)}
	switch {
	case first == "unsat":
		r.Status = "unsat"
	case first == "sat":
		r.Status = "sat"
		r.Model = parseModel(s)
	case first == "unknown":
		r.Status = "unknown"
		r.Model = parseModel(s)
	case first == "timeout" || ctx.Err() != nil || strings.Contains(first, "timeout") || strings.Contains(first, "interrupted"):
		r.Status = "timeout"
	default:
		r.Status = "error"
	}
	return r
}

func truncate(s string, n int) string {
	if len(s) > n {
		return s[:n] + "…"
	}
	return s
}

var defFun = regexp.MustCompile(`\(define-fun\s+(\S+)\s+\(\)\s+(\S+)\s+`)

// parseModel extracts constant definitions from a (get-model) answer.
func parseModel(out string) map[string]string {
	m := map[string]string{}
	i := strings.Index(out, "(")
	if i < 0 {
		return m
	}
	s := out[i:]
	for _, loc := range defFun.FindAllStringSubmatchIndex(s, -1) {
		name := s[loc[2]:loc[3]]
		// value: balanced expression after the match
		j := loc[1]
		val := readSexp(s[j:])
		name = strings.Trim(name, "|")
		m[name] = strings.TrimSpace(val)
	}
	return m
}

func readSexp(s string) string {
	s = strings.TrimLeft(s, " \n\t")
	if s == "" {
		return ""
	}
	if s[0] != '(' {
		j := strings.IndexAny(s, " \n\t)")
		if j < 0 {
			return s
		}
		return s[:j]
	}
	depth := 0
	for i := 0; i < len(s); i++ {
		switch s[i] {
		case '(':
			depth++
		case ')':
			depth--
			if depth == 0 {
				return s[:i+1]
			}
		}
	}
	return s
}

// modelInt parses an SMT integer value such as 5 or (- 5).
func modelInt(v string) (int64, bool) {
	v = strings.TrimSpace(v)
	neg := false
	if strings.HasPrefix(v, "(-") {
		neg = true
		v = strings.TrimSpace(strings.TrimSuffix(strings.TrimPrefix(v, "(-"), ")"))
	}
	var n int64
	if _, err := fmt.Sscanf(v, "%d", &n); err != nil {
		return 0, false
	}
	if neg {
		n = -n
	}
	return n, true
}

type solveJob struct {
	name  string
	text  string
	res   SolveResult
	cover bool // vacuity guard: any answer other than unsat is fine, no need to try further back ends
}

// solveAll discharges the queries in parallel. mode "quick": z3-new first, the others only if it is undecided.
// mode "thorough": every back end runs; a `sat` from any of them wins over `unsat` from another.
func solveAll(dir string, jobs []*solveJob, tier string, timeoutS int, workers int) {
	var wg sync.WaitGroup
	sem := make(chan struct{}, workers)
	for i, j := range jobs {
		wg.Add(1)
		go func(i int, j *solveJob) {
			defer wg.Done()
			sem <- struct{}{}
			defer func() { <-sem }()
			file := filepath.Join(dir, fmt.Sprintf("q%05d.smt2", i))
			text := j.text + "(get-model)\n"
			if err := os.WriteFile(file, []byte(text), 0o644); err != nil {
				j.res = SolveResult{Status: "error", Output: err.Error()}
				return
			}
			defer os.Remove(file)
			// E-matching first; then a short run of the default configuration (MBQI often closes in milliseconds what
			// E-matching cannot), then the slower ones
			order := []string{"z3-new/em", "z3-new/short", "z3-new/em0", "z3-new", "cvc5", "z3"}
			if strings.Contains(j.text, "str.in_re") {
				order = []string{"z3-new", "z3"} // cvc5 1.0.3 does not terminate on these
			}
			var results []SolveResult
			var tried []string
			for k, s := range order {
				t := timeoutS
				if j.cover && t > 4 {
					t = 4
				}
				if k > 0 && tier == "quick" {
					t = timeoutS / 2
					if t < 2 {
						t = 2
					}
				}
				if s == "z3-new/short" {
					if tier != "quick" {
						continue
					}
					t = 2
				}
				file2 := file
				if s == "cvc5" {
					file2 = strings.TrimSuffix(file, ".smt2") + ".cvc5.smt2"
					os.WriteFile(file2, []byte("(set-logic ALL)\n"+text), 0o644)
					defer os.Remove(file2)
				}
				r := runSolver(s, file2, t)
				tried = append(tried, fmt.Sprintf("%s:%s:%.2fs", s, r.Status, r.Seconds))
				results = append(results, r)
				if tier == "quick" && (r.Status == "unsat" || r.Status == "sat") {
					break
				}
				if j.cover && r.Status != "error" {
					// vacuity guards: a contradiction among the assumptions shows up quickly or not at all; a time-out
					// means "not refuted", like unknown
					break
				}
			}
			// combine
			var final *SolveResult
			var candidate map[string]string
			for k := range results {
				if results[k].Status == "unknown" && len(results[k].Model) > 0 && candidate == nil {
					candidate = results[k].Model
				}
			}
			for k := range results {
				if results[k].Status == "sat" {
					final = &results[k]
					break
				}
			}
			if final == nil {
				for k := range results {
					if results[k].Status == "unsat" {
						final = &results[k]
						break
					}
				}
			}
			if final == nil {
				final = &results[len(results)-1]
				for k := range results {
					if results[k].Status == "unknown" {
						final = &results[k]
					}
				}
			}
			var tot float64
			for _, r := range results {
				tot += r.Seconds
			}
			j.res = *final
			if j.res.Status != "sat" && j.res.Status != "unsat" && candidate != nil {
				j.res.Model = candidate
			}
			j.res.Seconds = tot
			j.res.Tried = tried
		}(i, j)
	}
	wg.Wait()
}
